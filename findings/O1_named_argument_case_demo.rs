use trust_runtime::harness::TestHarness;
const SOURCE: &str = r#"
FUNCTION AddOne : INT
VAR_INPUT
    X : INT;
END_VAR
AddOne := X + INT#1;
END_FUNCTION

PROGRAM Main
VAR
    r : INT := 0;
END_VAR
r := AddOne(x := INT#5);
END_PROGRAM
"#;
#[test]
fn named_argument_is_case_insensitive() {
    let mut h = TestHarness::from_source(SOURCE).unwrap();
    let r = h.cycle();
    println!("errors={:?} r={:?}", r.errors, h.get_output("r"));
    assert!(matches!(h.get_output("r"), Some(trust_runtime::value::Value::Int(6))));
}
