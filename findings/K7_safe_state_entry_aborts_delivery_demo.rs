// Known finding K7 (C08): drop into crates/trust-runtime/tests/ and run
//   cargo test --offline -p trust-runtime --test K7_safe_state_entry_aborts_delivery_demo -- --nocapture
// Fails on the unchanged tree: io.toml with a wildcard safe-state entry is accepted (2 entries); after the fault gpio17 = 1.
use std::fs;
use std::path::{Path, PathBuf};
use std::time::{SystemTime, UNIX_EPOCH};

use trust_runtime::io::{GpioDriver, IoAddress};
use trust_runtime::value::Value;
use trust_runtime::Runtime;

fn temp_sysfs_base() -> PathBuf {
    let nanos = SystemTime::now()
        .duration_since(UNIX_EPOCH)
        .unwrap()
        .as_nanos();
    std::env::temp_dir().join(format!("trust-gpio-safe-{nanos}"))
}

fn create_gpio_files(base: &Path, line: u32) -> std::io::Result<()> {
    let gpio_dir = base.join(format!("gpio{line}"));
    fs::create_dir_all(&gpio_dir)?;
    fs::write(gpio_dir.join("direction"), "out")?;
    fs::write(gpio_dir.join("value"), "0")?;
    Ok(())
}

#[test]
fn one_unwritable_safe_state_entry_must_not_disable_the_others() {
    let base = temp_sysfs_base();
    create_gpio_files(&base, 17).expect("create gpio files");
    let mut params = toml::map::Map::new();
    params.insert("backend".into(), toml::Value::String("sysfs".to_string()));
    params.insert("sysfs_base".into(), toml::Value::String(base.display().to_string()));
    let outputs = toml::Value::Array(vec![toml::Value::Table(toml::map::Map::from_iter([
        ("address".into(), toml::Value::String("%QX0.0".to_string())),
        ("line".into(), toml::Value::Integer(17)),
        ("initial".into(), toml::Value::Boolean(true)),
    ]))]);
    params.insert("outputs".into(), outputs);
    let driver = GpioDriver::from_params(&toml::Value::Table(params)).expect("gpio driver");
    let value_path = base.join("gpio17").join("value");

    // io.toml as an operator would write it: the first entry uses a wildcard address
    let io_toml = base.join("io.toml");
    fs::write(&io_toml, r#"
[io]
safe_state = [{ address = "%QX*", value = "FALSE" }, { address = "%QX0.0", value = "FALSE" }]

[[io.drivers]]
name = "simulated"
params = {}
"#).unwrap();
    let config = trust_runtime::config::IoConfig::load(&io_toml).expect("io.toml is accepted");
    println!("accepted safe_state entries: {}", config.safe_state.outputs.len());

    let mut runtime = Runtime::new();
    runtime.io_mut().resize(0, 1, 0);
    runtime.add_io_driver("gpio", Box::new(driver));
    let address = IoAddress::parse("%QX0.0").expect("address");
    runtime.io_mut().write(&address, Value::Bool(true)).expect("write output");
    runtime.set_io_safe_state(config.safe_state);

    let _ = runtime.watchdog_timeout();

    let after = fs::read_to_string(&value_path).expect("read value");
    println!("gpio17 after the fault: {}", after.trim());
    let _ = fs::remove_dir_all(&base);
    assert_eq!(after.trim(), "0", "%QX0.0 is a configured safe-state output and must be driven to its safe value");
}
