use trust_runtime::harness::TestHarness;
use trust_runtime::value::Value;
use trust_runtime::RestartMode;

const SOURCE: &str = r#"
PROGRAM Main
VAR
    counter : INT := 0;
END_VAR
counter := counter + INT#1;
END_PROGRAM

CONFIGURATION C
VAR_GLOBAL
    trigger : BOOL := TRUE;
END_VAR
RESOURCE R ON CPU
TASK T (SINGLE := trigger, PRIORITY := 0);
PROGRAM Main WITH T : Main;
END_RESOURCE
END_CONFIGURATION
"#;

fn trace(h: &mut TestHarness, n: usize) -> Vec<Option<Value>> {
    let mut out = Vec::new();
    for _ in 0..n {
        let r = h.cycle();
        assert!(r.errors.is_empty(), "{:?}", r.errors);
        out.push(h.get_output("counter"));
    }
    out
}

#[test]
fn cold_restart_with_single_initially_true_equals_fresh() {
    let mut fresh = TestHarness::from_source(SOURCE).unwrap();
    let expected = trace(&mut fresh, 3);
    println!("fresh: {expected:?}");
    let mut h = TestHarness::from_source(SOURCE).unwrap();
    let _ = trace(&mut h, 2);
    h.restart(RestartMode::Cold).unwrap();
    let actual = trace(&mut h, 3);
    println!("restarted: {actual:?}");
    assert_eq!(actual, expected, "event task fires after a cold restart although SINGLE never had a rising edge");
}
