// Known finding K5 (C09): drop into crates/trust-runtime/tests/ and run
//   cargo test --offline -p trust-runtime --test K5_power_cycle_program_retain_demo -- --nocapture
// Fails on the unchanged tree: snapshot = {"gkept": Int(7)}, kept after the power cycle = Int(0), after a warm restart Int(3).
use trust_runtime::harness::TestHarness;
use trust_runtime::RestartMode;

const SOURCE: &str = r#"
PROGRAM Main
VAR RETAIN
    kept : INT := 0;
END_VAR
kept := kept + INT#1;
END_PROGRAM

CONFIGURATION C
VAR_GLOBAL RETAIN
    gkept : INT := 7;
END_VAR
RESOURCE R ON CPU
TASK T (INTERVAL := T#10ms, PRIORITY := 0);
PROGRAM Main WITH T : Main;
END_RESOURCE
END_CONFIGURATION
"#;

fn run3(h: &mut TestHarness) {
    for _ in 0..3 {
        h.advance_time(trust_runtime::value::Duration::from_millis(10));
        let r = h.cycle();
        assert!(r.errors.is_empty(), "{:?}", r.errors);
    }
}

#[test]
fn power_cycle_preserves_what_a_warm_restart_preserves() {
    // warm restart: the program-level RETAIN variable survives
    let mut warm = TestHarness::from_source(SOURCE).unwrap();
    run3(&mut warm);
    let before = warm.get_output("kept");
    warm.restart(RestartMode::Warm).unwrap();
    assert_eq!(warm.get_output("kept"), before);

    // power cycle: the snapshot of the old process applied to a newly built runtime
    let mut old = TestHarness::from_source(SOURCE).unwrap();
    run3(&mut old);
    let snapshot = old.runtime().retain_snapshot();
    println!("snapshot: {:?}", snapshot.values());
    let mut fresh = TestHarness::from_source(SOURCE).unwrap();
    fresh.runtime_mut().apply_retain_snapshot(&snapshot);
    println!("after power cycle: kept={:?}", fresh.get_output("kept"));
    assert_eq!(fresh.get_output("kept"), before,
        "program-level RETAIN variable lost across a power cycle although a warm restart keeps it");
}
