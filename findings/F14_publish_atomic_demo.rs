//! C07: "a faulted cycle publishes no program-computed outputs". write_outputs fails on the second
//! binding (value does not fit its I/O type); the first binding's new value must not be in the image.
use trust_runtime::io::{IoAddress, IoInterface};
use trust_runtime::memory::VariableStorage;
use trust_runtime::value::Value;
use trust_hir::TypeId;

#[test]
fn failed_publication_leaves_the_output_image_untouched() {
    let mut storage = VariableStorage::default();
    storage.set_global("a", Value::Byte(0x5A));
    storage.set_global("b", Value::DInt(70_000)); // does not fit INT
    let mut io = IoInterface::new();
    io.resize(0, 4, 0);
    let qa = IoAddress::parse("%QB0").unwrap();
    let qb = IoAddress::parse("%QW2").unwrap();
    io.bind("a", qa.clone());
    io.bind_typed("b", qb.clone(), TypeId::INT);
    let r = io.write_outputs(&storage);
    assert!(r.is_err(), "the second binding must fault: {r:?}");
    assert_eq!(io.read(&qa).unwrap(), Value::Byte(0), "a faulted publication wrote a program-computed value into the output image");
}
