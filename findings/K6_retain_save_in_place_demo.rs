// Known finding K6 (C10): drop into crates/trust-runtime/tests/ and run
//   cargo test --offline -p trust-runtime --test K6_retain_save_in_place_demo -- --nocapture
// FileRetainStore::store -> write_bytes(&self.path, ..) begins with fs::File::create(path), which truncates the
// LIVE retain file before any new byte is written. The test replays "the process dies right after that first
// statement" by executing exactly that statement and then loading. Fails on the unchanged tree: load() = Err.
use trust_runtime::retain::{FileRetainStore, RetainStore};
use trust_runtime::value::Value;
use trust_runtime::RetainSnapshot;

#[test]
fn crash_during_save_keeps_the_previous_snapshot() {
    let mut path = std::env::temp_dir();
    path.push(format!("trust_runtime_k6_{}.bin", std::process::id()));
    let mut previous = RetainSnapshot::default();
    previous.insert("Count", Value::Int(42));
    let store = FileRetainStore::new(&path);
    store.store(&previous).expect("first save");

    // second save, interrupted after the first statement of FileRetainStore::write_bytes
    drop(std::fs::File::create(&path).expect("create"));

    let loaded = store.load();
    println!("load after the interrupted save: {loaded:?}");
    let _ = std::fs::remove_file(&path);
    assert_eq!(loaded.ok(), Some(previous), "the previous snapshot is gone although the new one was never written");
}
