// Known finding K4 (C03, C02): drop into crates/trust-runtime/tests/ and run
//   cargo test --offline -p trust-runtime --test K4_assign_tag_demo -- --nocapture
// Fails on the unchanged tree: errors = [Overflow], d = Int(300) in a variable declared DINT.
use trust_runtime::harness::TestHarness;
use trust_runtime::value::Value;

const SOURCE: &str = r#"
PROGRAM Main
VAR
    i : INT := 300;
    d : DINT := 0;
    e : DINT := 0;
END_VAR
d := i;
e := d * d;
END_PROGRAM
"#;

#[test]
fn widening_assignment_keeps_declared_tag() {
    let mut h = TestHarness::from_source(SOURCE).unwrap();
    let r = h.cycle();
    println!("errors: {:?}", r.errors);
    println!("d = {:?}", h.get_output("d"));
    println!("e = {:?}", h.get_output("e"));
    // C02: 300 * 300 = 90000 fits DINT, the reference raises no fault
    assert!(r.errors.is_empty(), "{:?}", r.errors);
    // C03: a DINT variable holds a DINT
    assert!(matches!(h.get_output("d"), Some(Value::DInt(300))));
    assert!(matches!(h.get_output("e"), Some(Value::DInt(90000))));
}
