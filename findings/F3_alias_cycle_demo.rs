// Demonstration of finding F3 on the real code (before the fix commit): a type table whose entry 0 is
// an alias of itself makes BytecodeModule::validate recurse without bound (stack overflow, SIGSEGV/abort).
// Place as crates/trust-runtime/tests/zz_alias_cycle.rs and run
//     cargo test -p trust-runtime --test zz_alias_cycle --offline
use trust_runtime::bytecode::*;

#[test]
fn alias_cycle_is_rejected_not_a_stack_overflow() {
    let mut module = BytecodeModule::new(BytecodeVersion { major: 1, minor: 1 });
    let sec = |id: SectionId, data: SectionData| Section { id: id as u16, flags: 0, data };
    module.sections = vec![
        sec(SectionId::StringTable, SectionData::StringTable(StringTable { entries: vec![] })),
        sec(SectionId::TypeTable, SectionData::TypeTable(TypeTable {
            offsets: vec![],
            entries: vec![TypeEntry { kind: TypeKind::Alias, name_idx: None, data: TypeData::Alias { target_type_id: 0 } }],
        })),
        sec(SectionId::ConstPool, SectionData::ConstPool(ConstPool { entries: vec![ConstEntry { type_id: 0, payload: vec![] }] })),
        sec(SectionId::RefTable, SectionData::RefTable(RefTable { entries: vec![] })),
        sec(SectionId::PouIndex, SectionData::PouIndex(PouIndex { entries: vec![] })),
        sec(SectionId::PouBodies, SectionData::PouBodies(vec![])),
        sec(SectionId::ResourceMeta, SectionData::ResourceMeta(ResourceMeta { resources: vec![] })),
        sec(SectionId::IoMap, SectionData::IoMap(IoMap { bindings: vec![] })),
    ];
    // must be an error, never a crash
    assert!(module.validate().is_err());
}
