// contract harnesses for trust-lsp/src/handlers_sync
