// Contract harnesses for crates/trust-lsp/src/handlers/sync.rs  (C14)
//
// apply_content_changes(text, [change]) with the change expressed in editor positions (lines and
// UTF-16 code units) yields the text the editor holds: chars[..i] + inserted + chars[j..].
// Bound: texts of <= 3 chars over the full char domain, inserted text <= 1 char (full domain),
// every boundary pair i <= j.

use super::*;
use tower_lsp::lsp_types::{Position, Range, TextDocumentContentChangeEvent};

const K: usize = 3;

/// one representative per (UTF-8 length, UTF-16 length, newline-ness) class
fn any_class_char() -> char {
    let k: u8 = kani::any();
    kani::assume(k < 7);
    match k {
        0 => 'a',
        1 => '\n',
        2 => '\r',
        3 => '\u{e9}',
        4 => '\u{20ac}',
        5 => '\u{1f600}',
        _ => ' ',
    }
}

fn text_of(chars: &[char; K], from: usize, to: usize, out: &mut String) {
    let mut i = from;
    while i < to {
        out.push(chars[i]);
        i += 1;
    }
}

fn ref_pos(chars: &[char; K], k: usize) -> Position {
    let mut line = 0;
    let mut col = 0;
    let mut i = 0;
    while i < k {
        if chars[i] == '\n' {
            line += 1;
            col = 0;
        } else {
            col += chars[i].len_utf16() as u32;
        }
        i += 1;
    }
    Position { line, character: col }
}

// (a symbolic-text variant of the ranged-change harness -- 3 class chars, every boundary pair -- exhausts
// 24 GB in CBMC and is not kept; the constant-text unit lsp.apply_change.fixed below replaces it)

// a full-document change replaces the text
// @unit id=lsp.apply_full_change props=C14 tier=quick kind=bounded bound="texts of <= 3 chars" timeout=900 fn=apply_content_changes
#[kani::proof]
#[kani::unwind(14)]
fn lsp_apply_full_change() {
    let chars: [char; K] = [kani::any(), kani::any(), kani::any()];
    let n: usize = kani::any();
    kani::assume(n <= K);
    let mut new_text = String::new();
    text_of(&chars, 0, n, &mut new_text);
    let change = TextDocumentContentChangeEvent { range: None, range_length: None, text: new_text.clone() };
    let got = apply_content_changes("old text\n", &[change]);
    kani::cover!(n == 3);
    assert!(got.as_deref() == Some(new_text.as_str()));
}

// One ranged change on a CONSTANT text that contains every class, the range over every boundary pair:
// the splice statements of apply_content_changes produce chars[..i] + inserted + chars[j..].
const FIXED: &str = "a\u{1f600}b\n\u{e9}\u{20ac}\r\nz";
const FN: usize = 9;
const FIXED_CHARS: [char; FN] = ['a', '\u{1f600}', 'b', '\n', '\u{e9}', '\u{20ac}', '\r', '\n', 'z'];
const INS: &str = "Z\u{20ac}";

fn fixed_pos(k: usize) -> (Position, usize) {
    let mut line = 0;
    let mut col = 0;
    let mut byte = 0usize;
    let mut i = 0;
    while i < FN {
        if i < k {
            if FIXED_CHARS[i] == '\n' { line += 1; col = 0; } else { col += FIXED_CHARS[i].len_utf16() as u32; }
            byte += FIXED_CHARS[i].len_utf8();
        }
        i += 1;
    }
    (Position { line, character: col }, byte)
}

// @unit id=lsp.apply_change.fixed props=C14 tier=quick kind=bounded bound="one constant 9-char text a,U+1F600,b,LF,e-acute,euro,CR,LF,z; one ranged change over every boundary pair, inserted text empty or a constant 2-char string" timeout=1800 fn=apply_content_changes,position_to_offset
#[kani::proof]
#[kani::unwind(24)]
fn lsp_apply_change_fixed() {
    let (i, j): (usize, usize) = (kani::any(), kani::any());
    kani::assume(i <= j && j <= FN);
    let has_ins: bool = kani::any();
    let (pi, bi) = fixed_pos(i);
    let (pj, bj) = fixed_pos(j);
    let ins: &str = if has_ins { INS } else { "" };
    let change = TextDocumentContentChangeEvent { range: Some(Range { start: pi, end: pj }), range_length: None, text: ins.to_string() };
    let got = apply_content_changes(FIXED, &[change]);
    kani::cover!(i == 2 && j == 6 && has_ins);
    kani::cover!(i == j && !has_ins);
    let ok = match &got {
        Some(t) => {
            let g = t.as_bytes();
            let src = FIXED.as_bytes();
            let insb = ins.as_bytes();
            let exp_len = bi + insb.len() + (src.len() - bj);
            let mut same = g.len() == exp_len;
            let mut p = 0;
            while p < src.len() + 4 {
                if same && p < exp_len {
                    let e = if p < bi { src[p] } else if p < bi + insb.len() { insb[p - bi] } else { src[p - insb.len() - bi + bj] };
                    if g[p] != e { same = false; }
                }
                p += 1;
            }
            same
        }
        None => false,
    };
    assert!(ok, "the server's text after an incremental change equals the editor's text");
}

// Multi-change notifications (order of application, each range resolved on the evolving text) are proved
// for any number of changes by the Verus unit lsp.changes_fold on the verbatim loop; a two-change CBMC
// harness (even on a constant text) exhausts memory and is not kept.
