// Contract harnesses for crates/trust-lsp/src/handlers/sync.rs  (C14)
//
// apply_content_changes(text, [change]) with the change expressed in editor positions (lines and
// UTF-16 code units) yields the text the editor holds: chars[..i] + inserted + chars[j..].
// Bound: texts of <= 3 chars over the full char domain, inserted text <= 1 char (full domain),
// every boundary pair i <= j.

use super::*;
use tower_lsp::lsp_types::{Position, Range, TextDocumentContentChangeEvent};

const K: usize = 3;

/// one representative per (UTF-8 length, UTF-16 length, newline-ness) class
fn any_class_char() -> char {
    let k: u8 = kani::any();
    kani::assume(k < 7);
    match k {
        0 => 'a',
        1 => '\n',
        2 => '\r',
        3 => '\u{e9}',
        4 => '\u{20ac}',
        5 => '\u{1f600}',
        _ => ' ',
    }
}

fn text_of(chars: &[char; K], from: usize, to: usize, out: &mut String) {
    let mut i = from;
    while i < to {
        out.push(chars[i]);
        i += 1;
    }
}

fn ref_pos(chars: &[char; K], k: usize) -> Position {
    let mut line = 0;
    let mut col = 0;
    let mut i = 0;
    while i < k {
        if chars[i] == '\n' {
            line += 1;
            col = 0;
        } else {
            col += chars[i].len_utf16() as u32;
        }
        i += 1;
    }
    Position { line, character: col }
}

// @unit id=lsp.apply_change props=C14 tier=quick kind=bounded bound="texts of exactly 3 chars, each one of 7 class representatives (ASCII, LF, CR, 2-byte, 3-byte, astral, space); one ranged change over every boundary pair, inserted text <= 1 class char" timeout=2400 fn=apply_content_changes,position_to_offset
#[kani::proof]
#[kani::unwind(7)]
fn lsp_apply_change() {
    let chars: [char; K] = [any_class_char(), any_class_char(), any_class_char()];
    let n: usize = K; // constant length (a symbolic length doubles CBMC's memory)
    let (i, j): (usize, usize) = (kani::any(), kani::any());
    kani::assume(i <= j && j <= n);
    let ins: char = any_class_char();
    let has_ins: bool = kani::any();
    let mut original = String::new();
    text_of(&chars, 0, n, &mut original);
    let mut inserted = String::new();
    if has_ins {
        inserted.push(ins);
    }
    let change = TextDocumentContentChangeEvent {
        range: Some(Range { start: ref_pos(&chars, i), end: ref_pos(&chars, j) }),
        range_length: None,
        text: inserted.clone(),
    };
    let got = apply_content_changes(&original, &[change]);
    let mut expected = String::new();
    text_of(&chars, 0, i, &mut expected);
    expected.push_str(&inserted);
    text_of(&chars, j, n, &mut expected);
    kani::cover!(i == 1 && j == 2 && chars[0].len_utf16() == 2 && has_ins);
    kani::cover!(i == 2 && j == 3 && chars[0] == '\n');
    kani::cover!(i == j && !has_ins);
    assert!(got.as_deref() == Some(expected.as_str()), "the server's text after an incremental change equals the editor's text");
}

// a full-document change replaces the text
// @unit id=lsp.apply_full_change props=C14 tier=quick kind=bounded bound="texts of <= 3 chars" timeout=900 fn=apply_content_changes
#[kani::proof]
#[kani::unwind(7)]
fn lsp_apply_full_change() {
    let chars: [char; K] = [kani::any(), kani::any(), kani::any()];
    let n: usize = kani::any();
    kani::assume(n <= K);
    let mut new_text = String::new();
    text_of(&chars, 0, n, &mut new_text);
    let change = TextDocumentContentChangeEvent { range: None, range_length: None, text: new_text.clone() };
    let got = apply_content_changes("old text\n", &[change]);
    kani::cover!(n == 3);
    assert!(got.as_deref() == Some(new_text.as_str()));
}

// Two ranged changes in ONE notification: the second range is resolved against the text produced by
// the first (LSP: changes apply in order to the evolving document).
// @unit id=lsp.apply_two_changes props=C14 tier=quick kind=bounded bound="text pq; two insertions of one concrete char at symbolic boundaries (every pair)" timeout=2400 fn=apply_content_changes,position_to_offset
#[kani::proof]
#[kani::unwind(7)]
fn lsp_apply_two_changes() {
    // concrete two-char text (the property of this harness is the ORDER of application, not the encoding)
    let a: u8 = b'p';
    let b: u8 = b'q';
    let mut original = String::new();
    original.push(a as char);
    original.push(b as char);
    // first insertion at boundary i of the 2-char text, second at boundary j of the resulting 3-char text
    let i: u32 = kani::any();
    let j: u32 = kani::any();
    kani::assume(i <= 2 && j <= 3);
    let c1 = TextDocumentContentChangeEvent {
        range: Some(Range { start: Position { line: 0, character: i }, end: Position { line: 0, character: i } }),
        range_length: None,
        text: "X".to_string(),
    };
    let c2 = TextDocumentContentChangeEvent {
        range: Some(Range { start: Position { line: 0, character: j }, end: Position { line: 0, character: j } }),
        range_length: None,
        text: "Y".to_string(),
    };
    let got = apply_content_changes(&original, &[c1, c2]);
    // editor's view: insert X at i, then Y at j of the new text
    let mut step1 = [0u8; 3];
    let mut k = 0usize;
    let mut w = 0usize;
    let src = [a, b];
    while w < 3 {
        if w == i as usize { step1[w] = b'X'; } else { step1[w] = src[k]; k += 1; }
        w += 1;
    }
    let mut step2 = [0u8; 4];
    let (mut k2, mut w2) = (0usize, 0usize);
    while w2 < 4 {
        if w2 == j as usize { step2[w2] = b'Y'; } else { step2[w2] = step1[k2]; k2 += 1; }
        w2 += 1;
    }
    kani::cover!(i == 0 && j == 3);
    kani::cover!(i == 2 && j == 0);
    let ok = matches!(&got, Some(t) if t.as_bytes() == &step2[..]);
    assert!(ok, "changes of one notification apply in order, each to the text produced by the previous one");
}
