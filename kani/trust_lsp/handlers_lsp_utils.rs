// contract harnesses for trust-lsp/src/handlers_lsp_utils
