// Contract harnesses for crates/trust-lsp/src/handlers/lsp_utils.rs  (C14)
//
// Oracle: the editor's view. An LSP position is (line, UTF-16 code units since the line start);
// lines end at '\n'. For a text given as a sequence of chars, the boundary before char k has
//   line(k) = number of '\n' among chars[..k]
//   col(k)  = sum of len_utf16 over the chars after the last '\n' in chars[..k]
//   byte(k) = sum of len_utf8 over chars[..k]
// The contracts say: offset_to_line_col(byte(k)) == (line(k), col(k)), position_to_offset of
// (line(k), col(k)) == byte(k)  (round trip = identity on character boundaries), a column past the
// end of its line clamps to the line end, a line past the last line is None.
// Bound: texts of K = 3 chars, each char symbolic over the FULL scalar-value domain (ASCII, 2/3/4-byte,
// astral plane, '\r', '\n' are all covered by the solver, not by sampling).

use super::*;
use tower_lsp::lsp_types::Position;

pub(super) const K: usize = 3;

/// text of exactly n = len chars (n is a CONSTANT per harness: a symbolic length doubles CBMC's memory)
pub(super) fn text_of(chars: &[char; K], n: usize) -> String {
    let mut s = String::new();
    if n > 0 { s.push(chars[0]); }
    if n > 1 { s.push(chars[1]); }
    if n > 2 { s.push(chars[2]); }
    s
}

pub(super) fn ref_line(chars: &[char; K], k: usize) -> u32 {
    let mut line = 0;
    if k > 0 && chars[0] == '\n' { line += 1; }
    if k > 1 && chars[1] == '\n' { line += 1; }
    if k > 2 && chars[2] == '\n' { line += 1; }
    line
}

pub(super) fn ref_col16(chars: &[char; K], k: usize) -> u32 {
    let mut col = 0;
    if k > 0 { if chars[0] == '\n' { col = 0; } else { col += chars[0].len_utf16() as u32; } }
    if k > 1 { if chars[1] == '\n' { col = 0; } else { col += chars[1].len_utf16() as u32; } }
    if k > 2 { if chars[2] == '\n' { col = 0; } else { col += chars[2].len_utf16() as u32; } }
    col
}

pub(super) fn ref_byte(chars: &[char; K], k: usize) -> u32 {
    let mut b = 0;
    if k > 0 { b += chars[0].len_utf8() as u32; }
    if k > 1 { b += chars[1].len_utf8() as u32; }
    if k > 2 { b += chars[2].len_utf8() as u32; }
    b
}

pub(super) fn any_chars() -> [char; K] {
    [kani::any(), kani::any(), kani::any()]
}

/// one representative per (UTF-8 length, UTF-16 length, newline-ness) class
pub(super) fn any_class_char() -> char {
    let k: u8 = kani::any();
    kani::assume(k < 7);
    match k {
        0 => 'a',
        1 => '\n',
        2 => '\r',
        3 => '\u{e9}',      // 2 bytes, 1 unit
        4 => '\u{20ac}',    // 3 bytes, 1 unit
        5 => '\u{1f600}',   // 4 bytes, 2 units (astral)
        _ => ' ',
    }
}
pub(super) fn any_class_chars() -> [char; K] {
    [any_class_char(), any_class_char(), any_class_char()]
}

macro_rules! lsp_h_line_col {
    ($name:ident, $n:expr, $gen:ident) => {
        #[kani::proof]
        #[kani::unwind(6)]
        fn $name() {
            let chars = $gen();
            let s = text_of(&chars, $n);
            let k: usize = kani::any();
            kani::assume(k <= $n);
            let (line, col) = offset_to_line_col(&s, ref_byte(&chars, k));
            kani::cover!(k == $n && chars[0].len_utf16() == 2 && chars[0] != '\n');
            kani::cover!(k == $n && chars[0] == '\n');
            assert!(line == ref_line(&chars, k), "line = number of newlines before the offset");
            assert!(col == ref_col16(&chars, k), "character = UTF-16 code units since the line start");
        }
    };
}

macro_rules! lsp_h_roundtrip {
    ($name:ident, $n:expr, $gen:ident) => {
        #[kani::proof]
        #[kani::unwind(6)]
        fn $name() {
            let chars = $gen();
            let s = text_of(&chars, $n);
            let k: usize = kani::any();
            kani::assume(k <= $n);
            let o = ref_byte(&chars, k);
            let p = offset_to_position(&s, o);
            let back = position_to_offset(&s, p);
            kani::cover!(k == $n && chars[0].len_utf16() == 2);
            kani::cover!(k == $n && chars[0] == '\n');
            assert!(back == Some(o), "offset -> position -> offset is the identity on character boundaries");
        }
    };
}

macro_rules! lsp_h_position {
    ($name:ident, $n:expr, $gen:ident) => {
        #[kani::proof]
        #[kani::unwind(6)]
        fn $name() {
            let chars = $gen();
            let s = text_of(&chars, $n);
            // (a) the position of every boundary maps to that boundary's byte offset
            let k: usize = kani::any();
            kani::assume(k <= $n);
            let p = Position { line: ref_line(&chars, k), character: ref_col16(&chars, k) };
            assert!(position_to_offset(&s, p) == Some(ref_byte(&chars, k)), "an editor position denotes the byte offset of the same character boundary");
            // (b) a column past the end of its line clamps to the end of that line
            let extra: u32 = kani::any();
            kani::assume(extra >= 1 && extra <= 1000);
            let at_line_end = k == $n || chars[k] == '\n';
            if at_line_end {
                let q = Position { line: p.line, character: p.character + extra };
                assert!(position_to_offset(&s, q) == Some(ref_byte(&chars, k)), "a column past the line end clamps to the line end");
            }
            // (c) a line past the last line does not exist
            let last_line = ref_line(&chars, $n);
            let beyond = Position { line: last_line + extra, character: 0 };
            assert!(position_to_offset(&s, beyond).is_none(), "a line beyond the last line has no offset");
            kani::cover!(at_line_end && k < $n);
            kani::cover!(k == 1 && chars[0].len_utf16() == 2);
        }
    };
}

// @unit id=lsp.offset_to_line_col.n2 props=C14 tier=quick kind=bounded bound="texts of exactly 2 chars, each over the FULL char domain; every boundary offset" timeout=2400 fn=offset_to_line_col,offset_to_position
lsp_h_line_col!(lsp_offset_to_line_col_n2, 2, any_chars);
// @unit id=lsp.offset_to_line_col props=C14 tier=thorough kind=bounded bound="texts of exactly 3 chars, each over the FULL char domain; every boundary offset" timeout=3600 fn=offset_to_line_col,offset_to_position
lsp_h_line_col!(lsp_offset_to_line_col, 3, any_chars);
// @unit id=lsp.roundtrip.n2 props=C14 tier=thorough kind=bounded bound="texts of exactly 2 chars, FULL char domain" timeout=3600 fn=position_to_offset,offset_to_position,offset_to_line_col
lsp_h_roundtrip!(lsp_roundtrip_n2, 2, any_chars);
// @unit id=lsp.roundtrip.cls props=C14 tier=thorough kind=bounded bound="texts of exactly 3 chars, each one of 7 class representatives (ASCII, LF, CR, 2-byte, 3-byte, astral, space)" timeout=3600 fn=position_to_offset,offset_to_position,offset_to_line_col
lsp_h_roundtrip!(lsp_roundtrip_cls, 3, any_class_chars);
// @unit id=lsp.position_to_offset.n2 props=C14 tier=thorough kind=bounded bound="texts of exactly 2 chars, FULL char domain" timeout=3600 fn=position_to_offset
lsp_h_position!(lsp_position_to_offset_n2, 2, any_chars);

// ---- constant texts, symbolic position over the FULL u32 x u32 domain -----------------------------
// Each text is a constant (CBMC folds its UTF-8 decoding, so the whole position domain is affordable);
// together they contain every class: ASCII, astral (2 UTF-16 units), LF, 2-byte, 3-byte, CRLF, empty
// first/last line, empty text.
pub(super) fn c_line(chars: &[char], k: usize) -> u32 {
    let mut line = 0;
    let mut i = 0;
    while i < chars.len() {
        if i < k && chars[i] == '\n' { line += 1; }
        i += 1;
    }
    line
}
pub(super) fn c_col16(chars: &[char], k: usize) -> u32 {
    let mut col = 0;
    let mut i = 0;
    while i < chars.len() {
        if i < k { if chars[i] == '\n' { col = 0; } else { col += chars[i].len_utf16() as u32; } }
        i += 1;
    }
    col
}
pub(super) fn c_byte(chars: &[char], k: usize) -> u32 {
    let mut b = 0;
    let mut i = 0;
    while i < chars.len() {
        if i < k { b += chars[i].len_utf8() as u32; }
        i += 1;
    }
    b
}

macro_rules! lsp_h_position_const {
    ($name:ident, $text:expr, $chars:expr) => {
        #[kani::proof]
        #[kani::unwind(20)]
        fn $name() {
            const TEXT: &str = $text;
            let chars: &[char] = &$chars;
            let n = chars.len();
            let p = Position { line: kani::any(), character: kani::any() };
            let got = position_to_offset(TEXT, p);
            let last_line = c_line(chars, n);
            kani::cover!(p.line > last_line);
            if p.line > last_line {
                assert!(got.is_none(), "a line beyond the last line has no offset");
            } else {
                // boundaries of line p.line: does one of them have exactly this UTF-16 column?
                let mut exact: Option<u32> = None;
                let mut line_end: usize = n;
                let mut k = 0;
                while k <= n {
                    if c_line(chars, k) == p.line {
                        if c_col16(chars, k) == p.character { exact = Some(c_byte(chars, k)); }
                        if k == n || chars[k] == '\n' { line_end = k; }
                    }
                    k += 1;
                }
                kani::cover!(exact.is_some());
                kani::cover!(exact.is_none());
                if let Some(b) = exact {
                    assert!(got == Some(b), "an editor position denotes the byte offset of the same character boundary");
                } else if p.character > c_col16(chars, line_end) {
                    assert!(got == Some(c_byte(chars, line_end)), "a column past the line end clamps to the line end");
                }
                // a column strictly inside a surrogate pair denotes no boundary: nothing claimed
            }
        }
    };
}

macro_rules! lsp_h_offset_const {
    ($name:ident, $text:expr, $chars:expr) => {
        #[kani::proof]
        #[kani::unwind(20)]
        fn $name() {
            const TEXT: &str = $text;
            let chars: &[char] = &$chars;
            let n = chars.len();
            let k: usize = kani::any();
            kani::assume(k <= n);
            let o = c_byte(chars, k);
            let p = offset_to_position(TEXT, o);
            kani::cover!(k == n);
            kani::cover!(k == 0);
            assert!(p.line == c_line(chars, k), "line = number of newlines before the offset");
            assert!(p.character == c_col16(chars, k), "character = UTF-16 code units since the line start");
            assert!(position_to_offset(TEXT, p) == Some(o), "offset -> position -> offset is the identity on character boundaries");
        }
    };
}

// @unit id=lsp.position_to_offset.fixed props=C14 tier=quick kind=bounded bound="constant 9-char text a,U+1F600,b,LF,e-acute,euro,CR,LF,z; position over the FULL u32 x u32 domain" timeout=1200 fn=position_to_offset
lsp_h_position_const!(lsp_position_to_offset_fixed, "a\u{1f600}b\n\u{e9}\u{20ac}\r\nz", ['a', '\u{1f600}', 'b', '\n', '\u{e9}', '\u{20ac}', '\r', '\n', 'z']);
// @unit id=lsp.position_to_offset.fixed2 props=C14 tier=quick kind=bounded bound="constant text LF,U+1F600,U+10000,x,LF (empty first and last line, two astral chars); position over the FULL u32 x u32 domain" timeout=1200 fn=position_to_offset
lsp_h_position_const!(lsp_position_to_offset_fixed2, "\n\u{1f600}\u{10000}x\n", ['\n', '\u{1f600}', '\u{10000}', 'x', '\n']);
// @unit id=lsp.position_to_offset.empty props=C14 tier=quick kind=bounded bound="the empty text; position over the FULL u32 x u32 domain" timeout=1200 fn=position_to_offset
lsp_h_position_const!(lsp_position_to_offset_empty, "", [' '; 0]);

// @unit id=lsp.offset_to_line_col.fixed props=C14 tier=quick kind=bounded bound="constant 9-char text a,U+1F600,b,LF,e-acute,euro,CR,LF,z; every boundary offset" timeout=1200 fn=offset_to_line_col,offset_to_position,position_to_offset
lsp_h_offset_const!(lsp_offset_to_line_col_fixed, "a\u{1f600}b\n\u{e9}\u{20ac}\r\nz", ['a', '\u{1f600}', 'b', '\n', '\u{e9}', '\u{20ac}', '\r', '\n', 'z']);
// @unit id=lsp.offset_to_line_col.fixed2 props=C14 tier=quick kind=bounded bound="constant text LF,U+1F600,U+10000,x,LF; every boundary offset" timeout=1200 fn=offset_to_line_col,offset_to_position,position_to_offset
lsp_h_offset_const!(lsp_offset_to_line_col_fixed2, "\n\u{1f600}\u{10000}x\n", ['\n', '\u{1f600}', '\u{10000}', 'x', '\n']);
