// contract harnesses for trust-runtime/src/stdlib_fbs_timers (included by the verification hook)
