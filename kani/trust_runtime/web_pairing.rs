// Contract harnesses for crates/trust-runtime/src/web/pairing.rs  (C18)
//
// The credential -> role function of the control endpoint delegates pairing tokens to
// PairingStore::validate_with_role. Contract (from the property statement: credentials c in {.., pairing
// token of each role, expired/revoked}): a token that is expired, disabled or revoked maps to NO role;
// an enabled, unexpired token maps to exactly its stored role; a pairing token never carries Admin.
// save_tokens (file I/O) is stubbed out; the clock is a symbolic constant.

use super::*;

fn no_save(_path: &Path, _tokens: &[PairingToken]) -> io::Result<()> {
    Ok(())
}

fn tok(id: &str, token: &str, enabled: bool, role: AccessRole, expires_at: u64) -> PairingToken {
    PairingToken { id: id.to_string(), token: token.to_string(), created_at: 0, enabled, role, expires_at }
}

fn store(tokens: Vec<PairingToken>, now: u64) -> PairingStore {
    PairingStore { path: PathBuf::new(), state: Mutex::new(PairingState { tokens, pending: None }), now: Arc::new(move || now) }
}

fn any_role() -> AccessRole {
    let k: u8 = kani::any();
    kani::assume(k < 4);
    match k {
        0 => AccessRole::Viewer,
        1 => AccessRole::Operator,
        2 => AccessRole::Engineer,
        _ => AccessRole::Admin,
    }
}

// @unit id=ctl.pairing.validate props=C18 tier=quick kind=bounded bound="store of 2 tokens with constant strings; clock, expiry times, enabled flags and roles symbolic (full domain)" timeout=1200 fn=PairingStore::validate_with_role,prune_expired_tokens
#[kani::proof]
#[kani::stub(save_tokens, no_save)]
#[kani::unwind(8)]
fn ctl_pairing_validate() {
    let now: u64 = kani::any();
    let (e1, e2): (u64, u64) = (kani::any(), kani::any());
    let (en1, en2): (bool, bool) = (kani::any(), kani::any());
    let (r1, r2) = (any_role(), any_role());
    let s = store(vec![tok("p1", "AAA", en1, r1, e1), tok("p2", "BBB", en2, r2, e2)], now);
    let got1 = s.validate_with_role("AAA");
    let got2 = s.validate_with_role("BBB");
    let got3 = s.validate_with_role("CCC");
    kani::cover!(got1.is_some() && got2.is_none());
    kani::cover!(e1 < now && en1);
    assert!(got1 == if en1 && e1 >= now { Some(r1) } else { None }, "a pairing token maps to its role only while enabled and unexpired");
    assert!(got2 == if en2 && e2 >= now { Some(r2) } else { None }, "a pairing token maps to its role only while enabled and unexpired");
    assert!(got3.is_none(), "an unknown token maps to no role");
    std::mem::forget(s);
}

// @unit id=ctl.pairing.revoke props=C18 tier=quick kind=bounded bound="store of 3 tokens (two sharing an id) with constant strings; clock and expiry times symbolic (full domain)" timeout=1200 fn=PairingStore::revoke,PairingStore::validate_with_role,prune_expired_tokens
#[kani::proof]
#[kani::stub(save_tokens, no_save)]
#[kani::unwind(8)]
fn ctl_pairing_revoke() {
    let now: u64 = kani::any();
    let (e1, e2, e3): (u64, u64, u64) = (kani::any(), kani::any(), kani::any());
    // two devices paired in the same second share an id ("pair-<unix seconds>")
    let s = store(vec![tok("p1", "AAA", true, AccessRole::Engineer, e1), tok("p1", "BBB", true, AccessRole::Operator, e2), tok("p2", "CCC", true, AccessRole::Viewer, e3)], now);
    let changed = s.revoke("p1");
    let (g1, g2, g3) = (s.validate_with_role("AAA"), s.validate_with_role("BBB"), s.validate_with_role("CCC"));
    kani::cover!(changed && e1 >= now && e2 >= now);
    assert!(g1.is_none() && g2.is_none(), "after pair.revoke of an id no credential with that id maps to a role");
    assert!(g3 == if e3 >= now { Some(AccessRole::Viewer) } else { None }, "other tokens are unaffected");
    assert!(changed == (e1 >= now || e2 >= now), "revoke reports whether a token was disabled");
    std::mem::forget(s);
}

// @unit id=ctl.pairing.revoke_all props=C18 tier=quick kind=bounded bound="store of 2 tokens with constant strings; clock, expiry times, one enabled flag symbolic" timeout=1200 fn=PairingStore::revoke_all,PairingStore::validate_with_role
#[kani::proof]
#[kani::stub(save_tokens, no_save)]
#[kani::unwind(8)]
fn ctl_pairing_revoke_all() {
    let now: u64 = kani::any();
    let (e1, e2): (u64, u64) = (kani::any(), kani::any());
    let en1: bool = kani::any();
    let s = store(vec![tok("p1", "AAA", en1, AccessRole::Engineer, e1), tok("p2", "BBB", true, AccessRole::Operator, e2)], now);
    let n = s.revoke_all();
    let (g1, g2) = (s.validate_with_role("AAA"), s.validate_with_role("BBB"));
    kani::cover!(n == 2);
    assert!(g1.is_none() && g2.is_none(), "after revoke_all no pairing token maps to a role");
    std::mem::forget(s);
}

// @unit id=ctl.pairing.role_cap props=C18 tier=quick kind=proof fn=sanitize_requested_role
#[kani::proof]
fn ctl_pairing_role_cap() {
    let asked: Option<AccessRole> = if kani::any() { Some(any_role()) } else { None };
    let r = sanitize_requested_role(asked);
    kani::cover!(asked == Some(AccessRole::Admin));
    assert!(r != AccessRole::Admin, "a pairing token never carries the admin role");
    assert!(match asked { Some(a) => a.allows(r), None => r == AccessRole::Operator }, "the granted role never exceeds the requested one (default: operator)");
}
