// contract harnesses for trust-runtime/src/bytecode_validate (included by the verification hook)
