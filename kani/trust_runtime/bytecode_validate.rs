// Contract harnesses for crates/trust-runtime/src/bytecode/validate.rs  (C11)

use super::*;
use crate::bytecode::reader::BytecodeReader;
use crate::bytecode::{StringTable, TypeData, TypeEntry, TypeKind, TypeTable};

#[allow(dead_code)]
fn alias(to: u32) -> TypeEntry {
    TypeEntry { kind: TypeKind::Alias, name_idx: None, data: TypeData::Alias { target_type_id: to } }
}
#[allow(dead_code)]
fn subrange(to: u32) -> TypeEntry {
    TypeEntry { kind: TypeKind::Subrange, name_idx: None, data: TypeData::Subrange { base_type_id: to, lower: 0, upper: 1 } }
}
fn prim(prim_id: u16) -> TypeEntry {
    TypeEntry { kind: TypeKind::Primitive, name_idx: None, data: TypeData::Primitive { prim_id, max_length: 0 } }
}

// Termination of the recursive constant-payload walk (validate_const_payload_entry) is NOT decided here:
// CBMC unrolls its four recursive call sites exponentially (out of memory / > 10 min with a one-entry
// type table). It is proved unboundedly by the Verus unit bc.const_walk (decreases clause).

// ensure_* index validators: Ok => index is inside the table
// @unit id=bc.validate.indices props=C11 tier=quick kind=bounded bound="tables of 0..2 entries, index full u32" fn=ensure_string_index,ensure_type_index
#[kani::proof]
#[kani::unwind(4)]
fn bc_validate_indices() {
    let n: usize = kani::any();
    kani::assume(n <= 2);
    let mut entries = Vec::new();
    let mut i = 0;
    while i < n {
        entries.push(prim(1));
        i += 1;
    }
    let types = TypeTable { offsets: Vec::new(), entries };
    let idx: u32 = kani::any();
    let r = ensure_type_index(&types, idx);
    let ok = r.is_ok();
    std::mem::forget(r);
    assert!(ok == ((idx as usize) < n), "a type index is accepted iff it is inside the table");
    kani::cover!(ok);
    kani::cover!(!ok && n == 2);
    std::mem::forget(types);
}
