// Contract harnesses for crates/trust-runtime/src/bytecode/validate.rs  (C11)

use super::*;
use crate::bytecode::reader::BytecodeReader;
use crate::bytecode::{StringTable, TypeData, TypeEntry, TypeKind, TypeTable};

fn alias(to: u32) -> TypeEntry {
    TypeEntry { kind: TypeKind::Alias, name_idx: None, data: TypeData::Alias { target_type_id: to } }
}
fn subrange(to: u32) -> TypeEntry {
    TypeEntry { kind: TypeKind::Subrange, name_idx: None, data: TypeData::Subrange { base_type_id: to, lower: 0, upper: 1 } }
}
fn prim(prim_id: u16) -> TypeEntry {
    TypeEntry { kind: TypeKind::Primitive, name_idx: None, data: TypeData::Primitive { prim_id, max_length: 0 } }
}

// Termination of the recursive constant-payload walk: a type table whose alias / subrange entries
// form a cycle must be rejected with an error; the walk may not recurse without bound.
// (`unwind=strict`: the recursion bound IS the contract -- an unwinding-assertion failure means the
// validator can recurse deeper than the number of types, i.e. it does not terminate.)
// @unit id=bc.validate.const_cycle props=C11 tier=quick kind=bounded bound="type tables: [alias->0], [alias->1, alias->0], [subrange->0], [alias->1, prim]; payload <= 8 symbolic bytes" unwind=strict timeout=1200 fn=validate_const_payload_entry
#[kani::proof]
#[kani::unwind(8)]
fn bc_validate_const_cycle() {
    let payload: [u8; 8] = kani::any();
    let plen: usize = kani::any();
    kani::assume(plen <= 8);
    let strings = StringTable { entries: Vec::new() };
    let which: u8 = kani::any();
    kani::assume(which < 4);
    let types = match which {
        0 => TypeTable { offsets: Vec::new(), entries: vec![alias(0)] },
        1 => TypeTable { offsets: Vec::new(), entries: vec![alias(1), alias(0)] },
        2 => TypeTable { offsets: Vec::new(), entries: vec![subrange(0)] },
        _ => TypeTable { offsets: Vec::new(), entries: vec![alias(1), prim(4)] },
    };
    let mut reader = BytecodeReader::new(&payload[..plen]);
    let r = validate_const_payload_entry(&strings, &types, &types.entries[0], &mut reader);
    let is_ok = r.is_ok();
    std::mem::forget(r);
    if which < 3 {
        assert!(!is_ok, "a cyclic alias/subrange chain is rejected");
    } else {
        assert!(is_ok == (plen >= 4), "an acyclic alias resolves to its target (DINT: four bytes)");
    }
    kani::cover!(which == 0);
    kani::cover!(which == 1);
    kani::cover!(which == 3 && is_ok);
    std::mem::forget(types);
}

// ensure_* index validators: Ok => index is inside the table
// @unit id=bc.validate.indices props=C11 tier=quick kind=bounded bound="tables of 0..2 entries, index full u32" fn=ensure_string_index,ensure_type_index
#[kani::proof]
#[kani::unwind(4)]
fn bc_validate_indices() {
    let n: usize = kani::any();
    kani::assume(n <= 2);
    let mut entries = Vec::new();
    let mut i = 0;
    while i < n {
        entries.push(prim(1));
        i += 1;
    }
    let types = TypeTable { offsets: Vec::new(), entries };
    let idx: u32 = kani::any();
    let r = ensure_type_index(&types, idx);
    let ok = r.is_ok();
    std::mem::forget(r);
    assert!(ok == ((idx as usize) < n), "a type index is accepted iff it is inside the table");
    kani::cover!(ok);
    kani::cover!(!ok && n == 2);
    std::mem::forget(types);
}
