// Contract harnesses for crates/trust-runtime/src/eval/ops.rs  (C01, C02, C03)
//
// Included by the verification hook at the end of eval/ops.rs as a child module, so
// `super::*` reaches the private helpers. The functions under contract are the real ones.
//
// Conventions (see /verif/DESIGN.md §2.1):
//   * every harness carries a `// @unit` line that the driver parses (id, properties, tier, kind,
//     function under contract, bound);
//   * a `Result<Value, _>` with a symbolic discriminant is never dropped or compared with `==`:
//     the verdict is computed with `matches!`/pattern matching on a reference, then `mem::forget`;
//   * the oracle (`ref_*`) is written from the property statement (exact integer arithmetic in
//     the wider operand type, fault on overflow, truncating division, MOD takes the dividend's
//     sign) and never calls the code under test.

use super::*;
use crate::error::RuntimeError;
use crate::value::{
    DateTimeProfile, DateTimeValue, DateValue, Duration, LDateTimeValue, LDateValue,
    LTimeOfDayValue, TimeOfDayValue, Value,
};

// ---------------------------------------------------------------------------------------------
// Oracle
// ---------------------------------------------------------------------------------------------

#[derive(Clone, Copy, PartialEq, Eq)]
enum RefOut {
    Val(i128),
    Overflow,
    DivZero,
    ModZero,
}

/// Signed kinds: 0 = SINT, 1 = INT, 2 = DINT, 3 = LINT.
fn s_range(k: u8) -> (i64, i64) {
    match k {
        0 => (i8::MIN as i64, i8::MAX as i64),
        1 => (i16::MIN as i64, i16::MAX as i64),
        2 => (i32::MIN as i64, i32::MAX as i64),
        _ => (i64::MIN, i64::MAX),
    }
}

/// Unsigned kinds: 0 = USINT, 1 = UINT, 2 = UDINT, 3 = ULINT.
fn u_range(k: u8) -> u64 {
    match k {
        0 => u8::MAX as u64,
        1 => u16::MAX as u64,
        2 => u32::MAX as u64,
        _ => u64::MAX,
    }
}

fn mk_signed(k: u8, x: i64) -> Value {
    match k {
        0 => Value::SInt(x as i8),
        1 => Value::Int(x as i16),
        2 => Value::DInt(x as i32),
        _ => Value::LInt(x),
    }
}

fn mk_unsigned(k: u8, x: u64) -> Value {
    match k {
        0 => Value::USInt(x as u8),
        1 => Value::UInt(x as u16),
        2 => Value::UDInt(x as u32),
        _ => Value::ULInt(x),
    }
}

/// (kind, value) of a signed integer result.
fn view_signed(v: &Value) -> Option<(u8, i64)> {
    match v {
        Value::SInt(x) => Some((0, *x as i64)),
        Value::Int(x) => Some((1, *x as i64)),
        Value::DInt(x) => Some((2, *x as i64)),
        Value::LInt(x) => Some((3, *x)),
        _ => None,
    }
}

fn view_unsigned(v: &Value) -> Option<(u8, u64)> {
    match v {
        Value::USInt(x) => Some((0, *x as u64)),
        Value::UInt(x) => Some((1, *x as u64)),
        Value::UDInt(x) => Some((2, *x as u64)),
        Value::ULInt(x) => Some((3, *x)),
        _ => None,
    }
}

fn any_signed(k: u8) -> i64 {
    let x: i64 = kani::any();
    let (lo, hi) = s_range(k);
    kani::assume(x >= lo && x <= hi);
    x
}

fn any_unsigned(k: u8) -> u64 {
    let x: u64 = kani::any();
    kani::assume(x <= u_range(k));
    x
}

fn any_kind() -> u8 {
    let k: u8 = kani::any();
    kani::assume(k < 4);
    k
}

fn in_s_range(k: u8, v: i128) -> RefOut {
    let (lo, hi) = s_range(k);
    if v < lo as i128 || v > hi as i128 {
        RefOut::Overflow
    } else {
        RefOut::Val(v)
    }
}

fn in_u_range(k: u8, v: u128) -> RefOut {
    if v > u_range(k) as u128 {
        RefOut::Overflow
    } else {
        RefOut::Val(v as i128)
    }
}

/// Does the runtime result agree with the oracle for a signed target kind?
fn agree_signed(r: &Result<Value, RuntimeError>, target: u8, exp: RefOut) -> bool {
    match (r, exp) {
        (Ok(v), RefOut::Val(e)) => match view_signed(v) {
            Some((k, x)) => k == target && x as i128 == e,
            None => false,
        },
        (Err(RuntimeError::Overflow), RefOut::Overflow) => true,
        (Err(RuntimeError::DivisionByZero), RefOut::DivZero) => true,
        (Err(RuntimeError::ModuloByZero), RefOut::ModZero) => true,
        _ => false,
    }
}

fn agree_unsigned(r: &Result<Value, RuntimeError>, target: u8, exp: RefOut) -> bool {
    match (r, exp) {
        (Ok(v), RefOut::Val(e)) => match view_unsigned(v) {
            Some((k, x)) => k == target && x as i128 == e,
            None => false,
        },
        (Err(RuntimeError::Overflow), RefOut::Overflow) => true,
        (Err(RuntimeError::DivisionByZero), RefOut::DivZero) => true,
        (Err(RuntimeError::ModuloByZero), RefOut::ModZero) => true,
        _ => false,
    }
}

fn agree_bool(r: &Result<Value, RuntimeError>, exp: bool) -> bool {
    matches!(r, Ok(Value::Bool(b)) if *b == exp)
}

fn profile() -> DateTimeProfile {
    DateTimeProfile::default()
}

fn wider(a: u8, b: u8) -> u8 {
    if a >= b {
        a
    } else {
        b
    }
}

// ---------------------------------------------------------------------------------------------
// Integer arithmetic: one harness per concrete (op, left kind, right kind); a symbolic
// discriminant makes CBMC unwind Value's drop glue without bound. Full value domain per harness.
// ---------------------------------------------------------------------------------------------

fn is_val(e: RefOut) -> bool { matches!(e, RefOut::Val(_)) }
fn is_ovf(e: RefOut) -> bool { matches!(e, RefOut::Overflow) }
fn is_dz(e: RefOut) -> bool { matches!(e, RefOut::DivZero) }
fn is_mz(e: RefOut) -> bool { matches!(e, RefOut::ModZero) }

macro_rules! signed_arith {
    ($name:ident, $op:ident, $kl:expr, $kr:expr, |$a:ident, $b:ident| $exp:expr, [$($cov:expr),*]) => {
        #[kani::proof]
        fn $name() {
            let ($a, $b) = (any_signed($kl), any_signed($kr));
            let t = wider($kl, $kr);
            let exp: RefOut = $exp;
            let exp = match exp { RefOut::Val(v) => in_s_range(t, v), e => e };
            let r = apply_binary(BinaryOp::$op, mk_signed($kl, $a), mk_signed($kr, $b), &profile());
            let ok = agree_signed(&r, t, exp);
            $( kani::cover!($cov(exp)); )*
            std::mem::forget(r);
            assert!(ok, "result equals the exact result in the wider operand type; fault iff the reference faults");
        }
    };
}

macro_rules! unsigned_arith {
    ($name:ident, $op:ident, $kl:expr, $kr:expr, |$a:ident, $b:ident| $exp:expr, [$($cov:expr),*]) => {
        #[kani::proof]
        fn $name() {
            let ($a, $b) = (any_unsigned($kl), any_unsigned($kr));
            let t = wider($kl, $kr);
            let exp: RefOut = $exp;
            let exp = match exp { RefOut::Val(v) => in_u_range(t, v as u128), e => e };
            let r = apply_binary(BinaryOp::$op, mk_unsigned($kl, $a), mk_unsigned($kr, $b), &profile());
            let ok = agree_unsigned(&r, t, exp);
            $( kani::cover!($cov(exp)); )*
            std::mem::forget(r);
            assert!(ok, "result equals the exact result in the wider operand type; fault iff the reference faults");
        }
    };
}

fn u_sub(a: u64, b: u64) -> RefOut { if a < b { RefOut::Overflow } else { RefOut::Val((a - b) as i128) } }
/// exact unsigned product, as i128 when it fits below 2^127 (always out of every target range otherwise)
fn u_mul(a: u64, b: u64) -> RefOut {
    let p = a as u128 * b as u128;
    if p > u64::MAX as u128 { RefOut::Overflow } else { RefOut::Val(p as i128) }
}

// @unit id=ops.add.sint.sint props=C01,C02,C03 tier=thorough kind=proof fn=apply_binary,numeric_arith,signed_from_i128,to_i64,wider_numeric
signed_arith!(ops_add_sint_sint, Add, 0, 0, |a, b| RefOut::Val(a as i128 + b as i128), [is_val, is_ovf]);
// @unit id=ops.add.int.int props=C01,C02,C03 tier=quick kind=proof fn=apply_binary,numeric_arith,signed_from_i128,to_i64,wider_numeric
signed_arith!(ops_add_int_int, Add, 1, 1, |a, b| RefOut::Val(a as i128 + b as i128), [is_val, is_ovf]);
// @unit id=ops.add.dint.dint props=C01,C02,C03 tier=thorough kind=proof fn=apply_binary,numeric_arith,signed_from_i128,to_i64,wider_numeric
signed_arith!(ops_add_dint_dint, Add, 2, 2, |a, b| RefOut::Val(a as i128 + b as i128), [is_val, is_ovf]);
// @unit id=ops.add.lint.lint props=C01,C02,C03 tier=quick kind=proof fn=apply_binary,numeric_arith,signed_from_i128,to_i64,wider_numeric
signed_arith!(ops_add_lint_lint, Add, 3, 3, |a, b| RefOut::Val(a as i128 + b as i128), [is_val, is_ovf]);
// @unit id=ops.add.sint.dint props=C01,C02,C03 tier=quick kind=proof fn=apply_binary,numeric_arith,signed_from_i128,to_i64,wider_numeric
signed_arith!(ops_add_sint_dint, Add, 0, 2, |a, b| RefOut::Val(a as i128 + b as i128), [is_val, is_ovf]);
// @unit id=ops.add.lint.int props=C01,C02,C03 tier=thorough kind=proof fn=apply_binary,numeric_arith,signed_from_i128,to_i64,wider_numeric
signed_arith!(ops_add_lint_int, Add, 3, 1, |a, b| RefOut::Val(a as i128 + b as i128), [is_val, is_ovf]);

// @unit id=ops.sub.sint.sint props=C01,C02,C03 tier=thorough kind=proof fn=apply_binary,numeric_arith,signed_from_i128
signed_arith!(ops_sub_sint_sint, Sub, 0, 0, |a, b| RefOut::Val(a as i128 - b as i128), [is_val, is_ovf]);
// @unit id=ops.sub.int.int props=C01,C02,C03 tier=thorough kind=proof fn=apply_binary,numeric_arith,signed_from_i128
signed_arith!(ops_sub_int_int, Sub, 1, 1, |a, b| RefOut::Val(a as i128 - b as i128), [is_val, is_ovf]);
// @unit id=ops.sub.dint.dint props=C01,C02,C03 tier=thorough kind=proof fn=apply_binary,numeric_arith,signed_from_i128
signed_arith!(ops_sub_dint_dint, Sub, 2, 2, |a, b| RefOut::Val(a as i128 - b as i128), [is_val, is_ovf]);
// @unit id=ops.sub.lint.lint props=C01,C02,C03 tier=quick kind=proof fn=apply_binary,numeric_arith,signed_from_i128
signed_arith!(ops_sub_lint_lint, Sub, 3, 3, |a, b| RefOut::Val(a as i128 - b as i128), [is_val, is_ovf]);
// @unit id=ops.sub.int.dint props=C01,C02,C03 tier=quick kind=proof fn=apply_binary,numeric_arith,signed_from_i128,wider_numeric
signed_arith!(ops_sub_int_dint, Sub, 1, 2, |a, b| RefOut::Val(a as i128 - b as i128), [is_val, is_ovf]);

// @unit id=ops.mul.sint.sint props=C01,C02,C03 tier=thorough kind=proof fn=apply_binary,numeric_arith,signed_from_i128
signed_arith!(ops_mul_sint_sint, Mul, 0, 0, |a, b| RefOut::Val(a as i128 * b as i128), [is_val, is_ovf]);
// @unit id=ops.mul.int.int props=C01,C02,C03 tier=quick kind=proof fn=apply_binary,numeric_arith,signed_from_i128
signed_arith!(ops_mul_int_int, Mul, 1, 1, |a, b| RefOut::Val(a as i128 * b as i128), [is_val, is_ovf]);
// @unit id=ops.mul.dint.dint props=C01,C02,C03 tier=quick kind=proof fn=apply_binary,numeric_arith,signed_from_i128
signed_arith!(ops_mul_dint_dint, Mul, 2, 2, |a, b| RefOut::Val(a as i128 * b as i128), [is_val, is_ovf]);
// @unit id=ops.mul.lint.lint props=C01,C02,C03 tier=thorough kind=proof timeout=900 fn=apply_binary,numeric_arith,signed_from_i128
signed_arith!(ops_mul_lint_lint, Mul, 3, 3, |a, b| RefOut::Val(a as i128 * b as i128), [is_val, is_ovf]);
// @unit id=ops.mul.dint.sint props=C01,C02,C03 tier=thorough kind=proof fn=apply_binary,numeric_arith,signed_from_i128,wider_numeric
signed_arith!(ops_mul_dint_sint, Mul, 2, 0, |a, b| RefOut::Val(a as i128 * b as i128), [is_val, is_ovf]);

// @unit id=ops.add.usint.usint props=C01,C02,C03 tier=thorough kind=proof fn=apply_binary,numeric_arith,unsigned_from_u128,to_u64
unsigned_arith!(ops_add_usint_usint, Add, 0, 0, |a, b| RefOut::Val(a as i128 + b as i128), [is_val, is_ovf]);
// @unit id=ops.add.uint.uint props=C01,C02,C03 tier=thorough kind=proof fn=apply_binary,numeric_arith,unsigned_from_u128,to_u64
unsigned_arith!(ops_add_uint_uint, Add, 1, 1, |a, b| RefOut::Val(a as i128 + b as i128), [is_val, is_ovf]);
// @unit id=ops.add.udint.udint props=C01,C02,C03 tier=thorough kind=proof fn=apply_binary,numeric_arith,unsigned_from_u128,to_u64
unsigned_arith!(ops_add_udint_udint, Add, 2, 2, |a, b| RefOut::Val(a as i128 + b as i128), [is_val, is_ovf]);
// @unit id=ops.add.ulint.ulint props=C01,C02,C03 tier=quick kind=proof fn=apply_binary,numeric_arith,unsigned_from_u128,to_u64
unsigned_arith!(ops_add_ulint_ulint, Add, 3, 3, |a, b| RefOut::Val(a as i128 + b as i128), [is_val, is_ovf]);
// @unit id=ops.add.usint.udint props=C01,C02,C03 tier=quick kind=proof fn=apply_binary,numeric_arith,unsigned_from_u128,to_u64,wider_numeric
unsigned_arith!(ops_add_usint_udint, Add, 0, 2, |a, b| RefOut::Val(a as i128 + b as i128), [is_val, is_ovf]);
// @unit id=ops.sub.uint.uint props=C01,C02,C03 tier=quick kind=proof fn=apply_binary,numeric_arith,unsigned_from_u128,to_u64
unsigned_arith!(ops_sub_uint_uint, Sub, 1, 1, |a, b| u_sub(a, b), [is_val, is_ovf]);
// @unit id=ops.sub.ulint.ulint props=C01,C02,C03 tier=thorough kind=proof fn=apply_binary,numeric_arith,unsigned_from_u128,to_u64
unsigned_arith!(ops_sub_ulint_ulint, Sub, 3, 3, |a, b| u_sub(a, b), [is_val, is_ovf]);
// @unit id=ops.sub.udint.usint props=C01,C02,C03 tier=thorough kind=proof fn=apply_binary,numeric_arith,unsigned_from_u128,to_u64,wider_numeric
unsigned_arith!(ops_sub_udint_usint, Sub, 2, 0, |a, b| u_sub(a, b), [is_val, is_ovf]);
// @unit id=ops.mul.usint.usint props=C01,C02,C03 tier=thorough kind=proof fn=apply_binary,numeric_arith,unsigned_from_u128,to_u64
unsigned_arith!(ops_mul_usint_usint, Mul, 0, 0, |a, b| u_mul(a, b), [is_val, is_ovf]);
// @unit id=ops.mul.uint.uint props=C01,C02,C03 tier=thorough kind=proof fn=apply_binary,numeric_arith,unsigned_from_u128,to_u64
unsigned_arith!(ops_mul_uint_uint, Mul, 1, 1, |a, b| u_mul(a, b), [is_val, is_ovf]);
// @unit id=ops.mul.udint.udint props=C01,C02,C03 tier=quick kind=proof fn=apply_binary,numeric_arith,unsigned_from_u128,to_u64
unsigned_arith!(ops_mul_udint_udint, Mul, 2, 2, |a, b| u_mul(a, b), [is_val, is_ovf]);
// @unit id=ops.mul.ulint.ulint props=C01,C02,C03 tier=thorough kind=proof timeout=900 fn=apply_binary,numeric_arith,unsigned_from_u128,to_u64
unsigned_arith!(ops_mul_ulint_ulint, Mul, 3, 3, |a, b| u_mul(a, b), [is_val, is_ovf]);

// ---------------------------------------------------------------------------------------------
// Division and MOD. The contract is relational (no second divider in the oracle):
//   DIV:  b = 0 -> DivisionByZero;  the true quotient out of range (only MIN / -1) -> Overflow;
//         otherwise Ok(q) with  a = q*b + r,  |r| < |b|,  r = 0 or sign(r) = sign(a)   (truncation)
//   MOD:  b = 0 -> ModuloByZero;  otherwise Ok(r) with the r of the same decomposition, where the
//         quotient is taken from the DIV result just contracted (or 2^(n-1) for MIN MOD -1 = 0).
// These conditions determine q and r uniquely.
// ---------------------------------------------------------------------------------------------

fn trunc_decomp_ok(a: i128, b: i128, q: i128, r: i128) -> bool {
    let abs = |x: i128| if x < 0 { -x } else { x };
    a == q * b + r && abs(r) < abs(b) && (r == 0 || (r < 0) == (a < 0))
}

macro_rules! signed_divmod {
    ($name:ident, $kl:expr, $kr:expr) => {
        #[kani::proof]
        fn $name() {
            let (a, b) = (any_signed($kl), any_signed($kr));
            let t = wider($kl, $kr);
            let (lo, _hi) = s_range(t);
            let d = apply_binary(BinaryOp::Div, mk_signed($kl, a), mk_signed($kr, b), &profile());
            let m = apply_binary(BinaryOp::Mod, mk_signed($kl, a), mk_signed($kr, b), &profile());
            let min_over_minus_one = a == lo && b == -1;
            let ok = if b == 0 {
                matches!(&d, Err(RuntimeError::DivisionByZero)) && matches!(&m, Err(RuntimeError::ModuloByZero))
            } else if min_over_minus_one {
                matches!(&d, Err(RuntimeError::Overflow))
                    && matches!(&m, Ok(v) if view_signed(v) == Some((t, 0)))
            } else {
                match (&d, &m) {
                    (Ok(q), Ok(r)) => match (view_signed(q), view_signed(r)) {
                        (Some((kq, q)), Some((kr, r))) => {
                            kq == t && kr == t && trunc_decomp_ok(a as i128, b as i128, q as i128, r as i128)
                        }
                        _ => false,
                    },
                    _ => false,
                }
            };
            kani::cover!(b == 0);
            kani::cover!(min_over_minus_one);
            kani::cover!(b != 0 && !min_over_minus_one && a < 0 && b > 1);
            std::mem::forget(d);
            std::mem::forget(m);
            assert!(ok, "DIV truncates toward zero, MOD takes the dividend's sign, faults exactly on zero divisor / MIN DIV -1");
        }
    };
}

macro_rules! unsigned_divmod {
    ($name:ident, $kl:expr, $kr:expr) => {
        #[kani::proof]
        fn $name() {
            let (a, b) = (any_unsigned($kl), any_unsigned($kr));
            let t = wider($kl, $kr);
            let d = apply_binary(BinaryOp::Div, mk_unsigned($kl, a), mk_unsigned($kr, b), &profile());
            let m = apply_binary(BinaryOp::Mod, mk_unsigned($kl, a), mk_unsigned($kr, b), &profile());
            let ok = if b == 0 {
                matches!(&d, Err(RuntimeError::DivisionByZero)) && matches!(&m, Err(RuntimeError::ModuloByZero))
            } else {
                match (&d, &m) {
                    (Ok(q), Ok(r)) => match (view_unsigned(q), view_unsigned(r)) {
                        (Some((kq, q)), Some((kr, r))) => {
                            kq == t && kr == t && (a as u128) == (q as u128) * (b as u128) + (r as u128) && r < b
                        }
                        _ => false,
                    },
                    _ => false,
                }
            };
            kani::cover!(b == 0);
            kani::cover!(b > 1 && a > b);
            std::mem::forget(d);
            std::mem::forget(m);
            assert!(ok, "unsigned DIV/MOD: a = q*b + r with r < b; faults exactly on a zero divisor");
        }
    };
}

// @unit id=ops.divmod.sint.sint props=C01,C02,C03 tier=quick kind=proof fn=apply_binary,numeric_arith,signed_from_i128
signed_divmod!(ops_divmod_sint_sint, 0, 0);
// @unit id=ops.divmod.int.int props=C01,C02,C03 tier=thorough kind=proof timeout=600 fn=apply_binary,numeric_arith,signed_from_i128
signed_divmod!(ops_divmod_int_int, 1, 1);
// (ops.divmod.dint.dint: CBMC's 128-bit divider gives no verdict within 60 min for 32-bit operands and wider; not under contract)
// @unit id=ops.divmod.int.sint props=C01,C02,C03 tier=thorough kind=proof timeout=600 fn=apply_binary,numeric_arith,signed_from_i128,wider_numeric
signed_divmod!(ops_divmod_int_sint, 1, 0);
// @unit id=ops.divmod.usint.usint props=C01,C02,C03 tier=quick kind=proof fn=apply_binary,numeric_arith,unsigned_from_u128
unsigned_divmod!(ops_divmod_usint_usint, 0, 0);
// @unit id=ops.divmod.uint.uint props=C01,C02,C03 tier=thorough kind=proof timeout=600 fn=apply_binary,numeric_arith,unsigned_from_u128
unsigned_divmod!(ops_divmod_uint_uint, 1, 1);
// (ops.divmod.udint.udint: CBMC's 128-bit divider gives no verdict within 60 min for 32-bit operands and wider; not under contract)

// ---------------------------------------------------------------------------------------------
// apply_unary
// ---------------------------------------------------------------------------------------------

macro_rules! unary_neg_signed {
    ($name:ident, $k:expr) => {
        #[kani::proof]
        fn $name() {
            let a = any_signed($k);
            let exp = in_s_range($k, -(a as i128));
            let r = apply_unary(UnaryOp::Neg, mk_signed($k, a));
            let ok = agree_signed(&r, $k, exp);
            kani::cover!(is_val(exp));
            kani::cover!(is_ovf(exp));
            std::mem::forget(r);
            assert!(ok, "unary minus is the exact negation in the operand type, Overflow iff the operand is the type minimum");
        }
    };
}

// @unit id=ops.neg.sint props=C01,C02,C03 tier=quick kind=proof fn=apply_unary
unary_neg_signed!(ops_neg_sint, 0);
// @unit id=ops.neg.int props=C01,C02,C03 tier=quick kind=proof fn=apply_unary
unary_neg_signed!(ops_neg_int, 1);
// @unit id=ops.neg.dint props=C01,C02,C03 tier=quick kind=proof fn=apply_unary
unary_neg_signed!(ops_neg_dint, 2);
// @unit id=ops.neg.lint props=C01,C02,C03 tier=quick kind=proof fn=apply_unary
unary_neg_signed!(ops_neg_lint, 3);

// @unit id=ops.unary.not props=C01,C02,C03 tier=quick kind=proof fn=apply_unary
#[kani::proof]
fn ops_unary_not() {
    let b: bool = kani::any();
    let x8: u8 = kani::any();
    let x16: u16 = kani::any();
    let x32: u32 = kani::any();
    let x64: u64 = kani::any();
    let r0 = apply_unary(UnaryOp::Not, Value::Bool(b));
    let r1 = apply_unary(UnaryOp::Not, Value::Byte(x8));
    let r2 = apply_unary(UnaryOp::Not, Value::Word(x16));
    let r3 = apply_unary(UnaryOp::Not, Value::DWord(x32));
    let r4 = apply_unary(UnaryOp::Not, Value::LWord(x64));
    let ok = matches!(&r0, Ok(Value::Bool(v)) if *v == !b)
        && matches!(&r1, Ok(Value::Byte(v)) if *v == x8 ^ 0xff)
        && matches!(&r2, Ok(Value::Word(v)) if *v == x16 ^ 0xffff)
        && matches!(&r3, Ok(Value::DWord(v)) if *v == x32 ^ 0xffff_ffff)
        && matches!(&r4, Ok(Value::LWord(v)) if *v == x64 ^ u64::MAX);
    kani::cover!(b);
    std::mem::forget((r0, r1, r2, r3, r4));
    assert!(ok, "NOT is logical negation on BOOL and the bitwise complement on bit strings, same type");
}

// @unit id=ops.unary.pos props=C01,C02,C03 tier=quick kind=proof fn=apply_unary
#[kani::proof]
fn ops_unary_pos() {
    let a: i16 = kani::any();
    let u: u32 = kani::any();
    let r0 = apply_unary(UnaryOp::Pos, Value::Int(a));
    let r1 = apply_unary(UnaryOp::Pos, Value::UDInt(u));
    let ok = matches!(&r0, Ok(Value::Int(v)) if *v == a) && matches!(&r1, Ok(Value::UDInt(v)) if *v == u);
    kani::cover!(a < 0);
    std::mem::forget((r0, r1));
    assert!(ok, "unary plus is the identity");
}

// ---------------------------------------------------------------------------------------------
// Comparisons: mathematical order on the operand values, result BOOL
// ---------------------------------------------------------------------------------------------

fn cmp_all(l: &dyn Fn() -> Value, r: &dyn Fn() -> Value, lt: bool, eq: bool) -> bool {
    let p = profile();
    let r_lt = apply_binary(BinaryOp::Lt, l(), r(), &p);
    let r_le = apply_binary(BinaryOp::Le, l(), r(), &p);
    let r_gt = apply_binary(BinaryOp::Gt, l(), r(), &p);
    let r_ge = apply_binary(BinaryOp::Ge, l(), r(), &p);
    let r_eq = apply_binary(BinaryOp::Eq, l(), r(), &p);
    let r_ne = apply_binary(BinaryOp::Ne, l(), r(), &p);
    let ok = agree_bool(&r_lt, lt)
        && agree_bool(&r_le, lt || eq)
        && agree_bool(&r_gt, !lt && !eq)
        && agree_bool(&r_ge, !lt)
        && agree_bool(&r_eq, eq)
        && agree_bool(&r_ne, !eq);
    std::mem::forget((r_lt, r_le, r_gt, r_ge, r_eq, r_ne));
    ok
}

macro_rules! cmp_harness {
    ($name:ident, $mk_l:expr, $ty_l:ty, $mk_r:expr, $ty_r:ty, $wide:ty) => {
        #[kani::proof]
        fn $name() {
            let a: $ty_l = kani::any();
            let b: $ty_r = kani::any();
            let ok = cmp_all(&|| $mk_l(a), &|| $mk_r(b), (a as $wide) < (b as $wide), (a as $wide) == (b as $wide));
            kani::cover!((a as $wide) < (b as $wide));
            kani::cover!((a as $wide) == (b as $wide));
            kani::cover!((a as $wide) > (b as $wide));
            assert!(ok, "< <= > >= = <> follow the mathematical order of the operand values and return BOOL");
        }
    };
}

// @unit id=ops.cmp.int.int props=C01,C02 tier=thorough kind=proof fn=apply_binary,numeric_cmp,numeric_eq,to_i64
cmp_harness!(ops_cmp_int_int, Value::Int, i16, Value::Int, i16, i128);
// @unit id=ops.cmp.lint.lint props=C01,C02 tier=quick kind=proof fn=apply_binary,numeric_cmp,numeric_eq,to_i64
cmp_harness!(ops_cmp_lint_lint, Value::LInt, i64, Value::LInt, i64, i128);
// @unit id=ops.cmp.sint.dint props=C01,C02 tier=thorough kind=proof fn=apply_binary,numeric_cmp,numeric_eq,to_i64,wider_numeric
cmp_harness!(ops_cmp_sint_dint, Value::SInt, i8, Value::DInt, i32, i128);
// @unit id=ops.cmp.dint.dint props=C01,C02 tier=thorough kind=proof fn=apply_binary,numeric_cmp,numeric_eq,to_i64
cmp_harness!(ops_cmp_dint_dint, Value::DInt, i32, Value::DInt, i32, i128);
// @unit id=ops.cmp.uint.uint props=C01,C02 tier=quick kind=proof fn=apply_binary,numeric_cmp,numeric_eq,to_u64
cmp_harness!(ops_cmp_uint_uint, Value::UInt, u16, Value::UInt, u16, i128);
// @unit id=ops.cmp.ulint.ulint props=C01,C02 tier=thorough kind=proof fn=apply_binary,numeric_cmp,numeric_eq,to_u64
cmp_harness!(ops_cmp_ulint_ulint, Value::ULInt, u64, Value::ULInt, u64, i128);
// @unit id=ops.cmp.usint.udint props=C01,C02 tier=thorough kind=proof fn=apply_binary,numeric_cmp,numeric_eq,to_u64,wider_numeric
cmp_harness!(ops_cmp_usint_udint, Value::USInt, u8, Value::UDInt, u32, i128);
// @unit id=ops.cmp.byte.byte props=C01,C02 tier=quick kind=proof fn=apply_binary,non_numeric_cmp,ord_cmp,numeric_eq
cmp_harness!(ops_cmp_byte_byte, Value::Byte, u8, Value::Byte, u8, i128);
// @unit id=ops.cmp.word.word props=C01,C02 tier=thorough kind=proof fn=apply_binary,non_numeric_cmp,ord_cmp,numeric_eq
cmp_harness!(ops_cmp_word_word, Value::Word, u16, Value::Word, u16, i128);
// @unit id=ops.cmp.dword.dword props=C01,C02 tier=thorough kind=proof fn=apply_binary,non_numeric_cmp,ord_cmp,numeric_eq
cmp_harness!(ops_cmp_dword_dword, Value::DWord, u32, Value::DWord, u32, i128);
// @unit id=ops.cmp.lword.lword props=C01,C02 tier=thorough kind=proof fn=apply_binary,non_numeric_cmp,ord_cmp,numeric_eq
cmp_harness!(ops_cmp_lword_lword, Value::LWord, u64, Value::LWord, u64, i128);
// @unit id=ops.cmp.char.char props=C01,C02 tier=thorough kind=proof fn=apply_binary,non_numeric_cmp,ord_cmp,numeric_eq
cmp_harness!(ops_cmp_char_char, Value::Char, u8, Value::Char, u8, i128);
// @unit id=ops.cmp.wchar.wchar props=C01,C02 tier=thorough kind=proof fn=apply_binary,non_numeric_cmp,ord_cmp,numeric_eq
cmp_harness!(ops_cmp_wchar_wchar, Value::WChar, u16, Value::WChar, u16, i128);

fn mk_time(n: i64) -> Value { Value::Time(Duration::from_nanos(n)) }
fn mk_ltime(n: i64) -> Value { Value::LTime(Duration::from_nanos(n)) }
fn mk_date(n: i64) -> Value { Value::Date(DateValue::new(n)) }
fn mk_ldate(n: i64) -> Value { Value::LDate(LDateValue::new(n)) }
fn mk_tod(n: i64) -> Value { Value::Tod(TimeOfDayValue::new(n)) }
fn mk_ltod(n: i64) -> Value { Value::LTod(LTimeOfDayValue::new(n)) }
fn mk_dt(n: i64) -> Value { Value::Dt(DateTimeValue::new(n)) }
fn mk_ldt(n: i64) -> Value { Value::Ldt(LDateTimeValue::new(n)) }

// @unit id=ops.cmp.time props=C01,C02 tier=quick kind=proof fn=apply_binary,time_cmp,time_cmp_values,numeric_eq
cmp_harness!(ops_cmp_time, mk_time, i64, mk_time, i64, i128);
// @unit id=ops.cmp.ltime props=C01,C02 tier=thorough kind=proof fn=apply_binary,time_cmp,time_cmp_values,numeric_eq
cmp_harness!(ops_cmp_ltime, mk_ltime, i64, mk_ltime, i64, i128);
// @unit id=ops.cmp.date props=C01,C02 tier=thorough kind=proof fn=apply_binary,time_cmp,time_cmp_values,numeric_eq
cmp_harness!(ops_cmp_date, mk_date, i64, mk_date, i64, i128);
// @unit id=ops.cmp.tod props=C01,C02 tier=thorough kind=proof fn=apply_binary,time_cmp,time_cmp_values,numeric_eq
cmp_harness!(ops_cmp_tod, mk_tod, i64, mk_tod, i64, i128);
// @unit id=ops.cmp.dt props=C01,C02 tier=thorough kind=proof fn=apply_binary,time_cmp,time_cmp_values,numeric_eq
cmp_harness!(ops_cmp_dt, mk_dt, i64, mk_dt, i64, i128);
// @unit id=ops.cmp.ldt props=C01,C02 tier=thorough kind=proof fn=apply_binary,time_cmp,time_cmp_values,numeric_eq
cmp_harness!(ops_cmp_ldt, mk_ldt, i64, mk_ldt, i64, i128);
// @unit id=ops.cmp.ldate props=C01,C02 tier=thorough kind=proof fn=apply_binary,time_cmp,time_cmp_values,numeric_eq
cmp_harness!(ops_cmp_ldate, mk_ldate, i64, mk_ldate, i64, i128);
// @unit id=ops.cmp.ltod props=C01,C02 tier=thorough kind=proof fn=apply_binary,time_cmp,time_cmp_values,numeric_eq
cmp_harness!(ops_cmp_ltod, mk_ltod, i64, mk_ltod, i64, i128);

// @unit id=ops.cmp.bool props=C01,C02 tier=quick kind=proof fn=apply_binary,non_numeric_cmp,numeric_eq
#[kani::proof]
fn ops_cmp_bool() {
    let a: bool = kani::any();
    let b: bool = kani::any();
    let ok = cmp_all(&|| Value::Bool(a), &|| Value::Bool(b), !a && b, a == b);
    kani::cover!(a && !b);
    assert!(ok, "BOOL comparisons order FALSE < TRUE");
}

// ---------------------------------------------------------------------------------------------
// AND / OR / XOR
// ---------------------------------------------------------------------------------------------

macro_rules! bit_harness {
    ($name:ident, $var:ident, $ty:ty) => {
        #[kani::proof]
        fn $name() {
            let a: $ty = kani::any();
            let b: $ty = kani::any();
            let p = profile();
            let r_and = apply_binary(BinaryOp::And, Value::$var(a), Value::$var(b), &p);
            let r_or = apply_binary(BinaryOp::Or, Value::$var(a), Value::$var(b), &p);
            let r_xor = apply_binary(BinaryOp::Xor, Value::$var(a), Value::$var(b), &p);
            let ok = matches!(&r_and, Ok(Value::$var(v)) if *v == (a & b))
                && matches!(&r_or, Ok(Value::$var(v)) if *v == (a | b))
                && matches!(&r_xor, Ok(Value::$var(v)) if *v == (a ^ b));
            kani::cover!(a != b);
            std::mem::forget((r_and, r_or, r_xor));
            assert!(ok, "AND/OR/XOR are bitwise on equal-width bit strings (logical on BOOL), same result type");
        }
    };
}

// @unit id=ops.bit.bool props=C01,C02,C03 tier=quick kind=proof fn=apply_binary,logical_or_bitwise
bit_harness!(ops_bit_bool, Bool, bool);
// @unit id=ops.bit.byte props=C01,C02,C03 tier=thorough kind=proof fn=apply_binary,logical_or_bitwise,bit_op
bit_harness!(ops_bit_byte, Byte, u8);
// @unit id=ops.bit.word props=C01,C02,C03 tier=quick kind=proof fn=apply_binary,logical_or_bitwise,bit_op
bit_harness!(ops_bit_word, Word, u16);
// @unit id=ops.bit.dword props=C01,C02,C03 tier=thorough kind=proof fn=apply_binary,logical_or_bitwise,bit_op
bit_harness!(ops_bit_dword, DWord, u32);
// @unit id=ops.bit.lword props=C01,C02,C03 tier=quick kind=proof fn=apply_binary,logical_or_bitwise,bit_op
bit_harness!(ops_bit_lword, LWord, u64);

// ---------------------------------------------------------------------------------------------
// Date and time arithmetic: exact in i128 nanoseconds / ticks, range-checked.
// The contracts are on `time_arith` (the dispatcher `apply_binary` delegates to first): going
// through apply_binary's `if let Some(result) = time_arith(..) { return result; }` wrapper costs
// CBMC an extra 100 s per call for the move of a symbolic Result<Value,_>, so only one harness
// (ops.time.add.via_apply_binary) covers that wrapper.
// ---------------------------------------------------------------------------------------------

fn fits_i64(v: i128) -> bool { v >= i64::MIN as i128 && v <= i64::MAX as i128 }

type TR = Option<Result<Value, RuntimeError>>;

macro_rules! dur_addsub {
    ($name:ident, $mk:expr, $var:ident, $op:ident, |$a:ident, $b:ident| $e:expr) => {
        #[kani::proof]
        fn $name() {
            let $a: i64 = kani::any();
            let $b: i64 = kani::any();
            let (l, rr) = ($mk($a), $mk($b));
            let r: TR = time_arith(BinaryOp::$op, &l, &rr, &profile());
            let e: i128 = $e;
            let ok = if fits_i64(e) { matches!(&r, Some(Ok(Value::$var(v))) if v.as_nanos() as i128 == e) } else { matches!(&r, Some(Err(RuntimeError::Overflow))) };
            kani::cover!(fits_i64(e));
            kani::cover!(!fits_i64(e));
            std::mem::forget((r, l, rr));
            assert!(ok, "TIME +/- TIME is exact in nanoseconds, Overflow iff outside the 64-bit range");
        }
    };
}

// @unit id=ops.time.add props=C01,C02,C03 tier=quick kind=proof fn=time_arith,time_duration_op
dur_addsub!(ops_time_add, mk_time, Time, Add, |a, b| a as i128 + b as i128);
// @unit id=ops.time.sub props=C01,C02,C03 tier=quick kind=proof fn=time_arith,time_duration_op
dur_addsub!(ops_time_sub, mk_time, Time, Sub, |a, b| a as i128 - b as i128);
// @unit id=ops.ltime.add props=C01,C02,C03 tier=quick kind=proof fn=time_arith,time_duration_op
dur_addsub!(ops_ltime_add, mk_ltime, LTime, Add, |a, b| a as i128 + b as i128);
// @unit id=ops.ltime.sub props=C01,C02,C03 tier=quick kind=proof fn=time_arith,time_duration_op
dur_addsub!(ops_ltime_sub, mk_ltime, LTime, Sub, |a, b| a as i128 - b as i128);

// @unit id=ops.time.add.via_apply_binary props=C01,C02,C03 tier=thorough kind=proof timeout=900 fn=apply_binary,time_arith
#[kani::proof]
fn ops_time_add_via_apply_binary() {
    let a: i64 = kani::any();
    let b: i64 = kani::any();
    let r = apply_binary(BinaryOp::Add, mk_time(a), mk_time(b), &profile());
    let s = a as i128 + b as i128;
    let ok = if fits_i64(s) { matches!(&r, Ok(Value::Time(v)) if v.as_nanos() as i128 == s) } else { matches!(&r, Err(RuntimeError::Overflow)) };
    kani::cover!(fits_i64(s));
    kani::cover!(!fits_i64(s));
    std::mem::forget(r);
    assert!(ok, "apply_binary returns time_arith's result for TIME + TIME");
}

// duration_to_ticks: CBMC cannot finish its 128-bit divider (no result in 35 min), so its contract --
// truncation toward zero under a positive resolution, never a fault -- is proved by the Verus unit
// ops.ticks on the verbatim function; the harnesses below use that contract as a stub.
thread_local! {
    /// the tick count chosen by the contract stub in the current harness execution
    static LAST_TICKS: std::cell::Cell<i64> = const { std::cell::Cell::new(0) };
}

/// Stub that stands for duration_to_ticks in the callers' harnesses: any result allowed by the
/// contract just proved (ops.duration_to_ticks) -- modular reasoning, the callers see only the
/// contract. The chosen value is remembered so the harness can state the caller's postcondition
/// in terms of it (no second witness, no uniqueness argument for the solver).
fn duration_to_ticks_contract(time: Duration, _profile: &DateTimeProfile) -> Result<i64, RuntimeError> {
    let t = time.as_nanos();
    let k: i64 = kani::any();
    kani::assume(trunc_decomp_ok(t as i128, 1_000_000, k as i128, t as i128 - k as i128 * 1_000_000));
    LAST_TICKS.with(|c| c.set(k));
    Ok(k)
}

/// point (ticks) +/- TIME: exact in ticks, with k = duration_to_ticks(TIME) whole ticks.
macro_rules! point_with_time {
    ($name:ident, $mkp:expr, $var:ident, $op:ident, $swap:expr, |$a:ident, $k:ident| $e:expr) => {
        #[kani::proof]
        #[kani::stub(duration_to_ticks, duration_to_ticks_contract)]
        fn $name() {
            let $a: i64 = kani::any();
            let t: i64 = kani::any();
            let (l, rr) = if $swap { (mk_time(t), $mkp($a)) } else { ($mkp($a), mk_time(t)) };
            let r: TR = time_arith(BinaryOp::$op, &l, &rr, &profile());
            let $k = LAST_TICKS.with(|c| c.get()) as i128;
            let e: i128 = $e;
            let ok = if fits_i64(e) {
                matches!(&r, Some(Ok(Value::$var(v))) if v.ticks() as i128 == e)
            } else {
                matches!(&r, Some(Err(RuntimeError::DateTimeRange(_))))
            };
            kani::cover!(!fits_i64(e));
            kani::cover!(fits_i64(e) && t < -1_000_000);
            kani::cover!(fits_i64(e) && t > 1_999_999);
            std::mem::forget((r, l, rr));
            assert!(ok, "TOD/DT +/- TIME is exact in ticks, DateTimeRange fault iff outside the representable range");
        }
    };
}

// @unit id=ops.tod.add.time props=C01,C02,C03 tier=quick kind=proof timeout=600 fn=time_arith,time_of_day_with_time,duration_to_ticks
point_with_time!(ops_tod_add_time, mk_tod, Tod, Add, false, |a, k| a as i128 + k);
// @unit id=ops.tod.sub.time props=C01,C02,C03 tier=thorough kind=proof timeout=600 fn=time_arith,time_of_day_with_time,duration_to_ticks
point_with_time!(ops_tod_sub_time, mk_tod, Tod, Sub, false, |a, k| a as i128 - k);
// @unit id=ops.time.add.tod props=C01,C02,C03 tier=thorough kind=proof timeout=600 fn=time_arith,time_of_day_with_time,duration_to_ticks
point_with_time!(ops_time_add_tod, mk_tod, Tod, Add, true, |a, k| a as i128 + k);
// @unit id=ops.dt.add.time props=C01,C02,C03 tier=quick kind=proof timeout=600 fn=time_arith,datetime_with_time,duration_to_ticks
point_with_time!(ops_dt_add_time, mk_dt, Dt, Add, false, |a, k| a as i128 + k);
// @unit id=ops.dt.sub.time props=C01,C02,C03 tier=thorough kind=proof timeout=600 fn=time_arith,datetime_with_time,duration_to_ticks
point_with_time!(ops_dt_sub_time, mk_dt, Dt, Sub, false, |a, k| a as i128 - k);
// @unit id=ops.time.add.dt props=C01,C02,C03 tier=thorough kind=proof timeout=600 fn=time_arith,datetime_with_time,duration_to_ticks
point_with_time!(ops_time_add_dt, mk_dt, Dt, Add, true, |a, k| a as i128 + k);

macro_rules! lpoint_with_time {
    ($name:ident, $mkp:expr, $var:ident, $op:ident, $swap:expr, |$a:ident, $t:ident| $e:expr) => {
        #[kani::proof]
        fn $name() {
            let $a: i64 = kani::any();
            let $t: i64 = kani::any();
            let (l, rr) = if $swap { (mk_ltime($t), $mkp($a)) } else { ($mkp($a), mk_ltime($t)) };
            let r: TR = time_arith(BinaryOp::$op, &l, &rr, &profile());
            let e: i128 = $e;
            let ok = if fits_i64(e) {
                matches!(&r, Some(Ok(Value::$var(v))) if v.nanos() as i128 == e)
            } else {
                matches!(&r, Some(Err(RuntimeError::Overflow)))
            };
            kani::cover!(!fits_i64(e));
            kani::cover!(fits_i64(e));
            std::mem::forget((r, l, rr));
            assert!(ok, "LTOD/LDT +/- LTIME is exact in nanoseconds, Overflow iff outside the 64-bit range");
        }
    };
}

// @unit id=ops.ltod.add.ltime props=C01,C02,C03 tier=quick kind=proof fn=time_arith,long_tod_with_time
lpoint_with_time!(ops_ltod_add_ltime, mk_ltod, LTod, Add, false, |a, t| a as i128 + t as i128);
// @unit id=ops.ltod.sub.ltime props=C01,C02,C03 tier=thorough kind=proof fn=time_arith,long_tod_with_time
lpoint_with_time!(ops_ltod_sub_ltime, mk_ltod, LTod, Sub, false, |a, t| a as i128 - t as i128);
// @unit id=ops.ltime.add.ltod props=C01,C02,C03 tier=thorough kind=proof fn=time_arith,long_tod_with_time
lpoint_with_time!(ops_ltime_add_ltod, mk_ltod, LTod, Add, true, |a, t| a as i128 + t as i128);
// @unit id=ops.ldt.add.ltime props=C01,C02,C03 tier=thorough kind=proof fn=time_arith,long_datetime_with_time
lpoint_with_time!(ops_ldt_add_ltime, mk_ldt, Ldt, Add, false, |a, t| a as i128 + t as i128);
// @unit id=ops.ldt.sub.ltime props=C01,C02,C03 tier=quick kind=proof fn=time_arith,long_datetime_with_time
lpoint_with_time!(ops_ldt_sub_ltime, mk_ldt, Ldt, Sub, false, |a, t| a as i128 - t as i128);
// @unit id=ops.ltime.add.ldt props=C01,C02,C03 tier=thorough kind=proof fn=time_arith,long_datetime_with_time
lpoint_with_time!(ops_ltime_add_ldt, mk_ldt, Ldt, Add, true, |a, t| a as i128 + t as i128);

/// point - point = TIME (ticks difference scaled to nanoseconds under the default 1 ms profile)
macro_rules! point_diff {
    ($name:ident, $mkp:expr, $scale:expr, $var:ident) => {
        #[kani::proof]
        fn $name() {
            let a: i64 = kani::any();
            let b: i64 = kani::any();
            let (l, rr) = ($mkp(a), $mkp(b));
            let r: TR = time_arith(BinaryOp::Sub, &l, &rr, &profile());
            // |a - b| < 2^64 and scale <= 10^6 < 2^20: the exact product fits i128
            let e = (a as i128 - b as i128) * ($scale as i128);
            let ok = if fits_i64(e) { matches!(&r, Some(Ok(Value::$var(v))) if v.as_nanos() as i128 == e) } else { matches!(&r, Some(Err(RuntimeError::Overflow))) };
            kani::cover!(fits_i64(e) && a < b);
            kani::cover!(!fits_i64(e));
            std::mem::forget((r, l, rr));
            assert!(ok, "DATE-DATE / TOD-TOD / DT-DT is the exact tick difference as a duration, Overflow iff it does not fit");
        }
    };
}

// @unit id=ops.date.diff props=C01,C02,C03 tier=quick kind=proof timeout=600 fn=time_arith,date_diff,ticks_to_duration
point_diff!(ops_date_diff, mk_date, 1_000_000i64, Time);
// @unit id=ops.tod.diff props=C01,C02,C03 tier=thorough kind=proof timeout=600 fn=time_arith,tod_diff,ticks_to_duration
point_diff!(ops_tod_diff, mk_tod, 1_000_000i64, Time);
// @unit id=ops.dt.diff props=C01,C02,C03 tier=thorough kind=proof timeout=600 fn=time_arith,dt_diff,ticks_to_duration
point_diff!(ops_dt_diff, mk_dt, 1_000_000i64, Time);
// @unit id=ops.ldate.diff props=C01,C02,C03 tier=thorough kind=proof fn=time_arith,long_date_diff
point_diff!(ops_ldate_diff, mk_ldate, 1i64, LTime);
// @unit id=ops.ltod.diff props=C01,C02,C03 tier=thorough kind=proof fn=time_arith,long_tod_diff
point_diff!(ops_ltod_diff, mk_ltod, 1i64, LTime);
// @unit id=ops.ldt.diff props=C01,C02,C03 tier=quick kind=proof fn=time_arith,long_dt_diff
point_diff!(ops_ldt_diff, mk_ldt, 1i64, LTime);

// TIME * integer (both orders) -- exact, Overflow iff outside the 64-bit range.
macro_rules! time_mul_int {
    ($name:ident, $var:ident, $ty:ty, $swap:expr) => {
        #[kani::proof]
        fn $name() {
            let t: i64 = kani::any();
            let f: $ty = kani::any();
            let (l, rr) = if $swap { (Value::$var(f), mk_time(t)) } else { (mk_time(t), Value::$var(f)) };
            let r: TR = time_arith(BinaryOp::Mul, &l, &rr, &profile());
            let e = t as i128 * f as i128;
            let ok = if fits_i64(e) { matches!(&r, Some(Ok(Value::Time(v))) if v.as_nanos() as i128 == e) } else { matches!(&r, Some(Err(RuntimeError::Overflow))) };
            kani::cover!(fits_i64(e) && f > 1 && t > 1);
            kani::cover!(!fits_i64(e));
            std::mem::forget((r, l, rr));
            assert!(ok, "TIME * ANY_INT is the exact product, Overflow iff it does not fit");
        }
    };
}
// @unit id=ops.time.mul.int props=C01,C02,C03 tier=thorough kind=proof timeout=600 fn=time_arith,time_scale,scale_duration,numeric_factor
time_mul_int!(ops_time_mul_int, Int, i16, false);
// @unit id=ops.int.mul.time props=C01,C02,C03 tier=thorough kind=proof timeout=600 fn=time_arith,time_scale,scale_duration,numeric_factor
time_mul_int!(ops_int_mul_time, Int, i16, true);
// @unit id=ops.time.mul.udint props=C01,C02,C03 tier=thorough kind=proof timeout=900 fn=time_arith,time_scale,scale_duration,numeric_factor
time_mul_int!(ops_time_mul_udint, UDInt, u32, false);

// TIME / integer -- relational contract (no oracle divider), zero divisor -> DivisionByZero.
macro_rules! time_div_int {
    ($name:ident, $var:ident, $ty:ty) => {
        #[kani::proof]
        fn $name() {
            let t: i64 = kani::any();
            let f: $ty = kani::any();
            let (l, rr) = (mk_time(t), Value::$var(f));
            let r: TR = time_arith(BinaryOp::Div, &l, &rr, &profile());
            let ok = if f == 0 {
                matches!(&r, Some(Err(RuntimeError::DivisionByZero)))
            } else if t == i64::MIN && (f as i128) == -1 {
                matches!(&r, Some(Err(RuntimeError::Overflow)))
            } else {
                match &r {
                    Some(Ok(Value::Time(q))) => {
                        let q = q.as_nanos() as i128;
                        let rem = t as i128 - q * f as i128;
                        trunc_decomp_ok(t as i128, f as i128, q, rem)
                    }
                    _ => false,
                }
            };
            kani::cover!(f == 0);
            kani::cover!(f != 0 && t < 0);
            std::mem::forget((r, l, rr));
            assert!(ok, "TIME / ANY_INT truncates toward zero; DivisionByZero iff the divisor is zero");
        }
    };
}
// @unit id=ops.time.div.sint props=C01,C02,C03 tier=thorough kind=proof timeout=1800 fn=time_arith,time_scale,scale_duration,numeric_factor
time_div_int!(ops_time_div_sint, SInt, i8);

// C01-T: a zero-resolution profile must fault, not divide by zero.
// @unit id=ops.time.zero_resolution props=C01 tier=quick kind=proof fn=duration_to_ticks,time_of_day_with_time,time_arith
#[kani::proof]
fn ops_time_zero_resolution() {
    let a: i64 = kani::any();
    let t: i64 = kani::any();
    let p = DateTimeProfile { epoch: DateValue::new(0), resolution: Duration::from_nanos(0) };
    let (l, rr) = (mk_tod(a), mk_time(t));
    let r: TR = time_arith(BinaryOp::Add, &l, &rr, &p);
    let ok = matches!(&r, Some(Err(RuntimeError::Overflow)));
    kani::cover!(t != 0);
    std::mem::forget((r, l, rr));
    assert!(ok, "a zero tick resolution is reported as a fault, never a division panic");
}

// ---------------------------------------------------------------------------------------------
// Known findings K1 / K2 (recorded in /verif/known_findings.json, not repaired: the repair needs a
// semantics decision). Each has an exclusion harness (the contract holds outside the recorded input
// class) and a witness harness (its cover says whether the finding is still present).
//
// K1  mixed signed/unsigned operands (accepted by the checker, widened to the UNSIGNED type): a
//     negative signed operand yields the static-class error TypeMismatch instead of a value-dependent
//     fault (arithmetic) or the mathematically correct BOOL (comparison).
// K2  integer ** negative integer yields TypeMismatch.
// ---------------------------------------------------------------------------------------------

// @unit id=ops.mixed.add.dint.uint props=C01,C02,C03 tier=quick kind=proof fn=apply_binary,numeric_arith,to_u64,unsigned_from_u128,wider_numeric
#[kani::proof]
fn ops_mixed_add_dint_uint() {
    let a: i32 = kani::any();
    let b: u16 = kani::any();
    kani::assume(a >= 0); // K1 excluded
    let r = apply_binary(BinaryOp::Add, Value::DInt(a), Value::UInt(b), &profile());
    let e = a as i128 + b as i128;
    let ok = if e <= u16::MAX as i128 { matches!(&r, Ok(Value::UInt(v)) if *v as i128 == e) } else { matches!(&r, Err(RuntimeError::Overflow)) };
    kani::cover!(e <= u16::MAX as i128 && a > 0);
    kani::cover!(e > u16::MAX as i128);
    std::mem::forget(r);
    assert!(ok, "DINT + UINT with a non-negative DINT is exact in UINT, Overflow iff out of range");
}

// @unit id=ops.mixed.cmp.dint.uint props=C01,C02 tier=thorough kind=proof fn=apply_binary,numeric_cmp,numeric_eq,to_u64,wider_numeric
#[kani::proof]
fn ops_mixed_cmp_dint_uint() {
    let a: i32 = kani::any();
    let b: u16 = kani::any();
    kani::assume(a >= 0); // K1 excluded
    let ok = cmp_all(&|| Value::DInt(a), &|| Value::UInt(b), (a as i128) < (b as i128), (a as i128) == (b as i128));
    kani::cover!((a as i128) > (b as i128));
    assert!(ok, "DINT vs UINT comparisons follow the mathematical order (non-negative DINT)");
}

// @unit id=ops.mixed.K1_witness props=C01 tier=quick kind=proof known=K1-mixed-sign-negative fn=apply_binary,to_u64
#[kani::proof]
fn ops_mixed_k1_witness() {
    let a: i32 = kani::any();
    let b: u16 = kani::any();
    let r = apply_binary(BinaryOp::Add, Value::DInt(a), Value::UInt(b), &profile());
    let hit = a < 0 && matches!(&r, Err(RuntimeError::TypeMismatch));
    std::mem::forget(r);
    kani::cover!(hit);
}

fn ipow(base: i128, exp: u32) -> Option<i128> {
    let mut acc: i128 = 1;
    let mut i = 0;
    while i < exp {
        acc = acc.checked_mul(base)?;
        i += 1;
    }
    Some(acc)
}

// @unit id=ops.pow.int.int props=C01,C02,C03 tier=thorough kind=bounded bound="exponent 0..=5, base full INT domain" timeout=900 fn=apply_binary,numeric_arith,signed_from_i128
#[kani::proof]
#[kani::unwind(8)]
fn ops_pow_int_int() {
    let a: i16 = kani::any();
    let b: i16 = kani::any();
    kani::assume(b >= 0 && b <= 5); // K2 excluded (b < 0); bounded exponent
    let r = apply_binary(BinaryOp::Pow, Value::Int(a), Value::Int(b), &profile());
    let e = ipow(a as i128, b as u32);
    let ok = match e {
        Some(v) if v >= i16::MIN as i128 && v <= i16::MAX as i128 => matches!(&r, Ok(Value::Int(x)) if *x as i128 == v),
        _ => matches!(&r, Err(RuntimeError::Overflow)),
    };
    kani::cover!(b == 5 && a == 8);
    kani::cover!(b == 0 && a == 0);
    kani::cover!(b == 3 && a == -32);
    std::mem::forget(r);
    assert!(ok, "INT ** n is the exact power in INT, Overflow iff out of range (0 ** 0 = 1)");
}

// @unit id=ops.pow.K2_witness props=C01 tier=quick kind=proof known=K2-pow-negative-exponent fn=apply_binary,numeric_arith
#[kani::proof]
#[kani::unwind(8)]
fn ops_pow_k2_witness() {
    let a: i16 = kani::any();
    let b: i16 = kani::any();
    kani::assume(b < 0);
    let r = apply_binary(BinaryOp::Pow, Value::Int(a), Value::Int(b), &profile());
    let hit = matches!(&r, Err(RuntimeError::TypeMismatch));
    std::mem::forget(r);
    kani::cover!(hit);
}

// LINT ** n where the i128 INTERMEDIATE overflows (2^62 cubed is 2^186): that must be the value-dependent
// fault Overflow, never a panic (C01) and never a wrapped value (C02). Bases are the powers of two
// +-2^k (their powers are exact shifts, so the oracle needs no multiplier); a general LINT base does not
// finish in CBMC (128-bit multipliers).
// @unit id=ops.pow.lint.pow2 props=C01,C02,C03 tier=quick kind=bounded bound="bases +-2^k (k = 0..=63), exponent 0..=5" timeout=1500 fn=apply_binary,numeric_arith,signed_from_i128
#[kani::proof]
#[kani::unwind(8)]
fn ops_pow_lint_pow2() {
    let k: u32 = kani::any();
    let neg: bool = kani::any();
    let b: i64 = kani::any();
    kani::assume(k <= 63 && (k < 63 || neg) && b >= 0 && b <= 5);
    let a: i64 = if k == 63 { i64::MIN } else if neg { -(1i64 << k) } else { 1i64 << k };
    let r = apply_binary(BinaryOp::Pow, Value::LInt(a), Value::LInt(b), &profile());
    let e = k as i64 * b; // a ** b = (+-1)^b * 2^e
    let negative = neg && b % 2 == 1;
    let ok = if e <= 62 {
        let v = if negative { -(1i64 << e) } else { 1i64 << e };
        matches!(&r, Ok(Value::LInt(x)) if *x == v)
    } else if e == 63 && negative {
        matches!(&r, Ok(Value::LInt(x)) if *x == i64::MIN)
    } else {
        matches!(&r, Err(RuntimeError::Overflow))
    };
    kani::cover!(k == 62 && b == 3);          // 2^186: the i128 intermediate overflows
    kani::cover!(k == 21 && b == 3 && neg);   // -2^63 fits
    kani::cover!(e == 62 && !negative);
    std::mem::forget(r);
    assert!(ok, "LINT ** n is the exact power when it fits LINT and the value-dependent fault Overflow otherwise (never a panic, never a wrapped value)");
}
