// Contract harnesses for crates/trust-runtime/src/eval/ops.rs  (C01, C02, C03)
//
// Included by the verification hook at the end of eval/ops.rs as a child module, so
// `super::*` reaches the private helpers. The functions under contract are the real ones.
//
// Conventions (see /verif/DESIGN.md §2.1):
//   * every harness carries a `// @unit` line that the driver parses (id, properties, tier, kind,
//     function under contract, bound);
//   * a `Result<Value, _>` with a symbolic discriminant is never dropped or compared with `==`:
//     the verdict is computed with `matches!`/pattern matching on a reference, then `mem::forget`;
//   * the oracle (`ref_*`) is written from the property statement (exact integer arithmetic in
//     the wider operand type, fault on overflow, truncating division, MOD takes the dividend's
//     sign) and never calls the code under test.

use super::*;
use crate::error::RuntimeError;
use crate::value::{
    DateTimeProfile, DateTimeValue, DateValue, Duration, LDateTimeValue, LDateValue,
    LTimeOfDayValue, TimeOfDayValue, Value,
};

// ---------------------------------------------------------------------------------------------
// Oracle
// ---------------------------------------------------------------------------------------------

#[derive(Clone, Copy, PartialEq, Eq)]
enum RefOut {
    Val(i128),
    Overflow,
    DivZero,
    ModZero,
}

/// Signed kinds: 0 = SINT, 1 = INT, 2 = DINT, 3 = LINT.
fn s_range(k: u8) -> (i64, i64) {
    match k {
        0 => (i8::MIN as i64, i8::MAX as i64),
        1 => (i16::MIN as i64, i16::MAX as i64),
        2 => (i32::MIN as i64, i32::MAX as i64),
        _ => (i64::MIN, i64::MAX),
    }
}

/// Unsigned kinds: 0 = USINT, 1 = UINT, 2 = UDINT, 3 = ULINT.
fn u_range(k: u8) -> u64 {
    match k {
        0 => u8::MAX as u64,
        1 => u16::MAX as u64,
        2 => u32::MAX as u64,
        _ => u64::MAX,
    }
}

fn mk_signed(k: u8, x: i64) -> Value {
    match k {
        0 => Value::SInt(x as i8),
        1 => Value::Int(x as i16),
        2 => Value::DInt(x as i32),
        _ => Value::LInt(x),
    }
}

fn mk_unsigned(k: u8, x: u64) -> Value {
    match k {
        0 => Value::USInt(x as u8),
        1 => Value::UInt(x as u16),
        2 => Value::UDInt(x as u32),
        _ => Value::ULInt(x),
    }
}

/// (kind, value) of a signed integer result.
fn view_signed(v: &Value) -> Option<(u8, i64)> {
    match v {
        Value::SInt(x) => Some((0, *x as i64)),
        Value::Int(x) => Some((1, *x as i64)),
        Value::DInt(x) => Some((2, *x as i64)),
        Value::LInt(x) => Some((3, *x)),
        _ => None,
    }
}

fn view_unsigned(v: &Value) -> Option<(u8, u64)> {
    match v {
        Value::USInt(x) => Some((0, *x as u64)),
        Value::UInt(x) => Some((1, *x as u64)),
        Value::UDInt(x) => Some((2, *x as u64)),
        Value::ULInt(x) => Some((3, *x)),
        _ => None,
    }
}

fn any_signed(k: u8) -> i64 {
    let x: i64 = kani::any();
    let (lo, hi) = s_range(k);
    kani::assume(x >= lo && x <= hi);
    x
}

fn any_unsigned(k: u8) -> u64 {
    let x: u64 = kani::any();
    kani::assume(x <= u_range(k));
    x
}

fn any_kind() -> u8 {
    let k: u8 = kani::any();
    kani::assume(k < 4);
    k
}

fn in_s_range(k: u8, v: i128) -> RefOut {
    let (lo, hi) = s_range(k);
    if v < lo as i128 || v > hi as i128 {
        RefOut::Overflow
    } else {
        RefOut::Val(v)
    }
}

fn in_u_range(k: u8, v: u128) -> RefOut {
    if v > u_range(k) as u128 {
        RefOut::Overflow
    } else {
        RefOut::Val(v as i128)
    }
}

/// Does the runtime result agree with the oracle for a signed target kind?
fn agree_signed(r: &Result<Value, RuntimeError>, target: u8, exp: RefOut) -> bool {
    match (r, exp) {
        (Ok(v), RefOut::Val(e)) => match view_signed(v) {
            Some((k, x)) => k == target && x as i128 == e,
            None => false,
        },
        (Err(RuntimeError::Overflow), RefOut::Overflow) => true,
        (Err(RuntimeError::DivisionByZero), RefOut::DivZero) => true,
        (Err(RuntimeError::ModuloByZero), RefOut::ModZero) => true,
        _ => false,
    }
}

fn agree_unsigned(r: &Result<Value, RuntimeError>, target: u8, exp: RefOut) -> bool {
    match (r, exp) {
        (Ok(v), RefOut::Val(e)) => match view_unsigned(v) {
            Some((k, x)) => k == target && x as i128 == e,
            None => false,
        },
        (Err(RuntimeError::Overflow), RefOut::Overflow) => true,
        (Err(RuntimeError::DivisionByZero), RefOut::DivZero) => true,
        (Err(RuntimeError::ModuloByZero), RefOut::ModZero) => true,
        _ => false,
    }
}

fn agree_bool(r: &Result<Value, RuntimeError>, exp: bool) -> bool {
    matches!(r, Ok(Value::Bool(b)) if *b == exp)
}

fn profile() -> DateTimeProfile {
    DateTimeProfile::default()
}

fn wider(a: u8, b: u8) -> u8 {
    if a >= b {
        a
    } else {
        b
    }
}

// ---------------------------------------------------------------------------------------------
// C02 / C01 / C03: signed integer arithmetic; one harness per concrete (op, left kind, right kind)
// (a symbolic discriminant makes CBMC unwind Value's drop glue without bound), full value domain.
// ---------------------------------------------------------------------------------------------

macro_rules! signed_arith {
    ($name:ident, $op:ident, $kl:expr, $kr:expr, |$a:ident, $b:ident| $exp:expr, [$($cov:expr),*]) => {
        #[kani::proof]
        fn $name() {
            let ($a, $b) = (any_signed($kl), any_signed($kr));
            let t = wider($kl, $kr);
            let exp: RefOut = $exp;
            let exp = match exp { RefOut::Val(v) => in_s_range(t, v), e => e };
            let r = apply_binary(BinaryOp::$op, mk_signed($kl, $a), mk_signed($kr, $b), &profile());
            let ok = agree_signed(&r, t, exp);
            $( kani::cover!($cov(exp)); )*
            std::mem::forget(r);
            assert!(ok, "result equals the exact result in the wider operand type; fault iff the reference faults");
        }
    };
}

fn is_val(e: RefOut) -> bool { matches!(e, RefOut::Val(_)) }
fn is_ovf(e: RefOut) -> bool { matches!(e, RefOut::Overflow) }
fn is_dz(e: RefOut) -> bool { matches!(e, RefOut::DivZero) }
fn is_mz(e: RefOut) -> bool { matches!(e, RefOut::ModZero) }

// @unit id=ops.add.lint.lint props=C01,C02,C03 tier=quick kind=proof fn=apply_binary,numeric_arith,signed_from_i128,to_i64,wider_numeric
signed_arith!(ops_add_lint_lint, Add, 3, 3, |a, b| RefOut::Val(a as i128 + b as i128), [is_val, is_ovf]);
// @unit id=ops.add.int.int props=C01,C02,C03 tier=quick kind=proof fn=apply_binary,numeric_arith,signed_from_i128,to_i64,wider_numeric
signed_arith!(ops_add_int_int, Add, 1, 1, |a, b| RefOut::Val(a as i128 + b as i128), [is_val, is_ovf]);
// @unit id=ops.add.sint.dint props=C01,C02,C03 tier=quick kind=proof fn=apply_binary,numeric_arith,signed_from_i128,to_i64,wider_numeric
signed_arith!(ops_add_sint_dint, Add, 0, 2, |a, b| RefOut::Val(a as i128 + b as i128), [is_val, is_ovf]);

// ---------------------------------------------------------------------------------------------
// apply_unary
// ---------------------------------------------------------------------------------------------

macro_rules! unary_neg_signed {
    ($name:ident, $k:expr) => {
        #[kani::proof]
        fn $name() {
            let a = any_signed($k);
            let exp = in_s_range($k, -(a as i128));
            let r = apply_unary(UnaryOp::Neg, mk_signed($k, a));
            let ok = agree_signed(&r, $k, exp);
            kani::cover!(is_val(exp));
            kani::cover!(is_ovf(exp));
            std::mem::forget(r);
            assert!(ok, "unary minus is the exact negation in the operand type, Overflow iff the operand is the type minimum");
        }
    };
}

// @unit id=ops.neg.sint props=C01,C02,C03 tier=quick kind=proof fn=apply_unary
unary_neg_signed!(ops_neg_sint, 0);
// @unit id=ops.neg.int props=C01,C02,C03 tier=quick kind=proof fn=apply_unary
unary_neg_signed!(ops_neg_int, 1);
// @unit id=ops.neg.dint props=C01,C02,C03 tier=quick kind=proof fn=apply_unary
unary_neg_signed!(ops_neg_dint, 2);
// @unit id=ops.neg.lint props=C01,C02,C03 tier=quick kind=proof fn=apply_unary
unary_neg_signed!(ops_neg_lint, 3);
