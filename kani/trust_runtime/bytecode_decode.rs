// contract harnesses for trust-runtime/src/bytecode_decode (included by the verification hook)
