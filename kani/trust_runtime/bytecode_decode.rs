// Contract harnesses for crates/trust-runtime/src/bytecode/decode.rs  (C11)

use super::*;
use crate::bytecode::reader::BytecodeReader;
use crate::bytecode::util::align4;

// align4: smallest multiple of four >= x
// @unit id=bc.align4 props=C11 tier=quick kind=proof fn=align4
#[kani::proof]
fn bc_align4() {
    let x: usize = kani::any();
    kani::assume(x <= usize::MAX - 3);
    let r = align4(x);
    assert!(r >= x && r % 4 == 0 && r - x < 4, "align4 rounds up to the next multiple of four");
    kani::cover!(x % 4 == 1);
}

// validate_section_entries: Ok  =>  every entry aligned, inside the file, pairwise disjoint --
// exactly the precondition of the slicing `&bytes[start..end]` in BytecodeModule::decode
// ("validated means safe" for the framing).
// @unit id=bc.section_entries props=C11 tier=quick kind=bounded bound="3 section entries, offsets/lengths/file length full domain" timeout=900 fn=validate_section_entries
#[kani::proof]
#[kani::unwind(6)]
fn bc_section_entries() {
    let file_len: usize = kani::any();
    let mk = || SectionEntry { id: kani::any(), flags: kani::any(), offset: kani::any(), length: kani::any() };
    let entries = [mk(), mk(), mk()];
    let r = validate_section_entries(file_len, &entries);
    let accepted = matches!(&r, Ok(()));
    std::mem::forget(r);
    if accepted {
        let mut i = 0;
        while i < 3 {
            let (s, e) = (entries[i].offset as usize, entries[i].offset as usize + entries[i].length as usize);
            assert!(entries[i].offset % 4 == 0, "accepted sections are 4-byte aligned");
            assert!(e <= file_len, "accepted sections lie inside the file: slicing cannot panic");
            let mut j = 0;
            while j < 3 {
                if i != j {
                    let (s2, e2) = (entries[j].offset as usize, entries[j].offset as usize + entries[j].length as usize);
                    assert!(e <= s2 || e2 <= s || s == e || s2 == e2, "accepted non-empty sections do not overlap");
                }
                j += 1;
            }
            i += 1;
        }
    }
    kani::cover!(accepted && entries[0].length > 0 && entries[1].length > 0 && entries[2].offset < entries[0].offset);
    kani::cover!(!accepted);
}

// BytecodeModule::decode on <= 28 arbitrary header bytes did not finish within 15 minutes (the error
// constructors and the section loop dominate); the header geometry is not claimed. The framing
// obligation is carried by bc.section_entries above and the reader contracts.

/// Allocation obligation: the decoders' `Vec::with_capacity(n)` requests are replaced (Kani stub)
/// by this checked version: a request for more elements than the input has bytes is a failed check.
pub(crate) const ALLOC_LIMIT: usize = 16;
pub(crate) fn checked_with_capacity<T>(capacity: usize) -> Vec<T> {
    assert!(capacity <= ALLOC_LIMIT, "memory requested from an untrusted count is proportional to the input");
    Vec::new()
}

macro_rules! hostile_section {
    ($name:ident, $id:expr, $minor:expr) => {
        #[kani::proof]
        #[kani::stub(std::vec::Vec::with_capacity, checked_with_capacity)]
        #[kani::unwind(3)]
        fn $name() {
            let data: [u8; 4] = kani::any();
            let count = u32::from_le_bytes(data);
            kani::assume(count > 0);
            let r = decode_section_data(BytecodeVersion { major: 1, minor: $minor }, $id, &data);
            let is_err = r.is_err();
            kani::cover!(count == u32::MAX);
            kani::cover!(count == 1);
            std::mem::forget(r);
            assert!(is_err, "a count that the payload cannot hold is an error");
        }
    };
}

// @unit id=bc.decode.hostile.strings props=C11 tier=quick kind=bounded bound="section payload = a 4-byte count, count full u32 domain" timeout=1200 fn=decode_section_data,decode_string_table
hostile_section!(bc_decode_hostile_strings, 0x0001, 1);
// @unit id=bc.decode.hostile.consts props=C11 tier=quick kind=bounded bound="section payload = a 4-byte count, count full u32 domain" timeout=1200 fn=decode_section_data
hostile_section!(bc_decode_hostile_consts, 0x0003, 1);
// @unit id=bc.decode.hostile.io_map props=C11 tier=quick kind=bounded bound="section payload = a 4-byte count, count full u32 domain" timeout=1200 fn=decode_section_data
hostile_section!(bc_decode_hostile_io_map, 0x0008, 1);

// The TYPE_TABLE, REF_TABLE, POU_INDEX and RESOURCE_META arms were tried with the same harness and are
// out of reach: CBMC ran out of memory (62 GB) or exceeded 15 minutes on them. They are not claimed.
