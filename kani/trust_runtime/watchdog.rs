// contract harnesses for trust-runtime/src/watchdog (included by the verification hook)
