// contract harnesses for trust-runtime/src/debug_control (included by the verification hook)
