// contract harnesses for trust-runtime/src/security (included by the verification hook)
