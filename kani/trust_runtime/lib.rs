// contract harnesses for trust-runtime/src/lib (included by the verification hook)
