// Contract harnesses for pub items reached from the crate root (hooked at the end of lib.rs).
//
// value::partial_access  (C07): `x.%Xn / .%Bn / .%Wn / .%Dn` read and write exactly the addressed bits:
//   write(t, k, p)  ==  (t with the k-th piece replaced by p), every other bit of t unchanged;
//   read(write(t, k, p), k) == p;  an index outside the target is IndexOutOfBounds, never a panic.

use crate::value::{read_partial_access, write_partial_access, PartialAccess, PartialAccessError, Value};

macro_rules! partial_harness {
    ($name:ident, $tvar:ident, $tty:ty, $acc:ident, $pvar:ident, $pty:ty, $bits:expr, $count:expr) => {
        #[kani::proof]
        fn $name() {
            let t: $tty = kani::any();
            let p: $pty = kani::any();
            let k: u8 = kani::any();
            let w = write_partial_access(Value::$tvar(t), PartialAccess::$acc(k), Value::$pvar(p));
            if (k as u32) < $count {
                let shift = (k as u32) * $bits;
                let piece_mask: $tty = ((!0 as $tty) >> ((<$tty>::BITS - $bits) as u32)) << shift;
                let expected: $tty = (t & !piece_mask) | (((p as u64) as $tty) << shift);
                let ok_w = matches!(&w, Ok(Value::$tvar(x)) if *x == expected);
                assert!(ok_w, "a partial write replaces exactly the addressed piece; every other bit is unchanged");
                let r = read_partial_access(&Value::$tvar(expected), PartialAccess::$acc(k));
                let ok_r = matches!(&r, Ok(Value::$pvar(x)) if (*x as u64) == (p as u64));
                std::mem::forget(r);
                assert!(ok_r, "reading the piece back returns the written value");
            } else {
                let refused = matches!(&w, Err(PartialAccessError::IndexOutOfBounds { .. }));
                assert!(refused, "an index outside the target is refused");
            }
            kani::cover!((k as u32) == $count - 1 && t != 0);
            kani::cover!((k as u32) >= $count);
            std::mem::forget(w);
        }
    };
}

fn b2u(b: bool) -> u64 { b as u64 }

// bit access: the piece is a BOOL
macro_rules! partial_bit_harness {
    ($name:ident, $tvar:ident, $tty:ty) => {
        #[kani::proof]
        fn $name() {
            let t: $tty = kani::any();
            let p: bool = kani::any();
            let k: u8 = kani::any();
            let w = write_partial_access(Value::$tvar(t), PartialAccess::Bit(k), Value::Bool(p));
            if (k as u32) < <$tty>::BITS {
                let m: $tty = (1 as $tty) << (k as u32);
                let expected: $tty = if p { t | m } else { t & !m };
                let ok_w = matches!(&w, Ok(Value::$tvar(x)) if *x == expected);
                assert!(ok_w, "a bit write changes exactly bit n");
                let r = read_partial_access(&Value::$tvar(expected), PartialAccess::Bit(k));
                let ok_r = matches!(&r, Ok(Value::Bool(x)) if *x == p);
                std::mem::forget(r);
                assert!(ok_r);
            } else {
                assert!(matches!(&w, Err(PartialAccessError::IndexOutOfBounds { .. })));
            }
            kani::cover!((k as u32) == <$tty>::BITS - 1 && p);
            kani::cover!((k as u32) >= <$tty>::BITS);
            let _ = b2u(p);
            std::mem::forget(w);
        }
    };
}

// @unit id=partial.bit.byte props=C07 tier=quick kind=proof fn=write_partial_access,read_partial_access
partial_bit_harness!(partial_bit_byte, Byte, u8);
// @unit id=partial.bit.word props=C07 tier=quick kind=proof fn=write_partial_access,read_partial_access
partial_bit_harness!(partial_bit_word, Word, u16);
// @unit id=partial.bit.dword props=C07 tier=quick kind=proof fn=write_partial_access,read_partial_access
partial_bit_harness!(partial_bit_dword, DWord, u32);
// @unit id=partial.bit.lword props=C07 tier=quick kind=proof fn=write_partial_access,read_partial_access
partial_bit_harness!(partial_bit_lword, LWord, u64);
// @unit id=partial.byte.word props=C07 tier=quick kind=proof fn=write_partial_access,read_partial_access
partial_harness!(partial_byte_word, Word, u16, Byte, Byte, u8, 8, 2);
// @unit id=partial.byte.dword props=C07 tier=quick kind=proof fn=write_partial_access,read_partial_access
partial_harness!(partial_byte_dword, DWord, u32, Byte, Byte, u8, 8, 4);
// @unit id=partial.byte.lword props=C07 tier=quick kind=proof fn=write_partial_access,read_partial_access
partial_harness!(partial_byte_lword, LWord, u64, Byte, Byte, u8, 8, 8);
// @unit id=partial.word.dword props=C07 tier=quick kind=proof fn=write_partial_access,read_partial_access
partial_harness!(partial_word_dword, DWord, u32, Word, Word, u16, 16, 2);
// @unit id=partial.word.lword props=C07 tier=quick kind=proof fn=write_partial_access,read_partial_access
partial_harness!(partial_word_lword, LWord, u64, Word, Word, u16, 16, 4);
// @unit id=partial.dword.lword props=C07 tier=quick kind=proof fn=write_partial_access,read_partial_access
partial_harness!(partial_dword_lword, LWord, u64, DWord, DWord, u32, 32, 2);
