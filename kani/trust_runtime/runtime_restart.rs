// contract harnesses for trust-runtime/src/runtime_restart (included by the verification hook)
