// contract harnesses for trust-runtime/src/stdlib_fbs_counters (included by the verification hook)
