// Contract harnesses for crates/trust-runtime/src/io.rs  (C07, C03, C08)
//
// IoInterface::read / write: direct-address locality and little-endian layout.
//   pre  (addr_valid)  !wildcard, flat path (len <= 1), bit <= 7 -- the invariant IoAddress::parse
//                      establishes for every address the compiler hands to the runtime
//   post (write)       Ok; bytes [byte, byte+size) hold the little-endian encoding (bit n of byte b
//                      for X); EVERY other byte of that area and both other areas are unchanged
//                      (bytes beyond the old length read as 0); a wrong value variant is refused
//                      with TypeMismatch and leaves all three images unchanged
//   post (read)        never panics for any byte offset (short image reads as zeros);
//                      read(a) after write(a, v) is v
// Bound: image length <= 6 bytes and byte offset <= 7 (covers inside / straddling the end /
// beyond the end for every size); the value domain is full.

use super::*;
use crate::error::RuntimeError;
use crate::memory::IoArea;
use crate::value::Value;
use trust_hir::TypeId;

const N: usize = 6;
const MAXB: u32 = 7;

fn fixed_rs() -> std::hash::RandomState {
    verif_support::fixed_random_state()
}

fn any_image() -> Vec<u8> {
    let arr: [u8; N] = kani::any();
    let len: usize = kani::any();
    kani::assume(len <= N);
    arr[..len].to_vec()
}

fn mk_io(inputs: Vec<u8>, outputs: Vec<u8>, memory: Vec<u8>) -> IoInterface {
    IoInterface {
        inputs,
        outputs,
        memory,
        bindings: Vec::new(),
        hierarchical: std::collections::HashMap::default(),
    }
}

fn addr(area: IoArea, size: IoSize, byte: u32, bit: u8) -> IoAddress {
    IoAddress { area, size, byte, bit, path: vec![byte], wildcard: false }
}

fn at(v: &[u8], i: usize) -> u8 {
    if i < v.len() { v[i] } else { 0 }
}

/// frame: every byte outside [lo, lo+n) is unchanged (missing bytes read as zero)
fn unchanged_outside(before: &[u8], after: &[u8], lo: usize, n: usize) -> bool {
    let mut i = 0;
    let mut ok = true;
    while i < N + 10 {
        if i < lo || i >= lo + n {
            ok = ok && at(before, i) == at(after, i);
        }
        i += 1;
    }
    ok
}

macro_rules! write_harness {
    ($name:ident, $size:ident, $var:ident, $ty:ty, $n:expr) => {
        #[kani::proof]
        #[kani::stub(std::hash::RandomState::new, fixed_rs)]
        #[kani::unwind(18)]
        fn $name() {
            let (i0, q0, m0) = (vec![0xA5u8, 0x5A], any_image(), vec![0x3Cu8]);
            let mut io = mk_io(i0.clone(), q0.clone(), m0.clone());
            let byte: u32 = kani::any();
            kani::assume(byte <= MAXB);
            let v: $ty = kani::any();
            let a = addr(IoArea::Output, IoSize::$size, byte, 0);
            let r = io.write(&a, Value::$var(v));
            let ok_w = matches!(&r, Ok(()));
            std::mem::forget(r);
            assert!(ok_w, "a write to a valid direct address succeeds");
            let le = v.to_le_bytes();
            let mut k = 0;
            while k < $n {
                assert!(at(&io.outputs, byte as usize + k) == le[k], "little-endian layout at the addressed bytes");
                k += 1;
            }
            assert!(unchanged_outside(&q0, &io.outputs, byte as usize, $n), "bytes outside the addressed span are unchanged");
            assert!(io.inputs == i0 && io.memory == m0, "the other areas are untouched");
            let rb = io.read(&a);
            let ok_r = matches!(&rb, Ok(Value::$var(x)) if *x == v);
            std::mem::forget(rb);
            assert!(ok_r, "read after write returns the written value");
            kani::cover!($n > 6 || byte as usize + $n <= q0.len());
            kani::cover!($n == 1 || ((byte as usize) < q0.len() && byte as usize + $n > q0.len()));
            kani::cover!(byte as usize >= q0.len());
        }
    };
}

// @unit id=io.write.byte props=C07 tier=thorough kind=bounded bound="image<=6 bytes, offset<=7; value full" timeout=900 fn=IoInterface::write,IoInterface::read,ensure_len
write_harness!(io_write_byte, Byte, Byte, u8, 1);
// @unit id=io.write.word props=C07 tier=quick kind=bounded bound="image<=6 bytes, offset<=7; value full" timeout=900 fn=IoInterface::write,IoInterface::read,ensure_len
write_harness!(io_write_word, Word, Word, u16, 2);
// @unit id=io.write.dword props=C07 tier=thorough kind=bounded bound="image<=6 bytes, offset<=7; value full" timeout=900 fn=IoInterface::write,IoInterface::read,ensure_len
write_harness!(io_write_dword, DWord, DWord, u32, 4);
// (io.write.lword: verifies alone in 12 min / 21 GB but runs out of memory next to the other units; not
// registered, so that the thorough tier is reproducible -- the LWORD arms are covered by io.coerce.lword and partial.*.lword only)

// @unit id=io.write.bit props=C07 tier=quick kind=bounded bound="image<=6 bytes, offset<=7; bit 0..7, value full" timeout=900 fn=IoInterface::write,IoInterface::read,ensure_len
#[kani::proof]
#[kani::stub(std::hash::RandomState::new, fixed_rs)]
#[kani::unwind(18)]
fn io_write_bit() {
    let (i0, q0, m0) = (vec![0xA5u8, 0x5A], any_image(), vec![0x3Cu8]);
    let mut io = mk_io(i0.clone(), q0.clone(), m0.clone());
    let byte: u32 = kani::any();
    let bit: u8 = kani::any();
    kani::assume(byte <= MAXB && bit <= 7);
    let v: bool = kani::any();
    let a = addr(IoArea::Output, IoSize::Bit, byte, bit);
    let r = io.write(&a, Value::Bool(v));
    let ok_w = matches!(&r, Ok(()));
    std::mem::forget(r);
    assert!(ok_w);
    let old = at(&q0, byte as usize);
    let new = at(&io.outputs, byte as usize);
    let mask = 1u8 << bit;
    assert!((new & mask != 0) == v, "bit n of byte b holds the written BOOL");
    assert!((new & !mask) == (old & !mask), "the other seven bits of the byte are unchanged");
    assert!(unchanged_outside(&q0, &io.outputs, byte as usize, 1));
    assert!(io.inputs == i0 && io.memory == m0);
    let rb = io.read(&a);
    let ok_r = matches!(&rb, Ok(Value::Bool(x)) if *x == v);
    std::mem::forget(rb);
    assert!(ok_r);
    kani::cover!(v && bit == 7 && (byte as usize) < q0.len());
    kani::cover!(!v && byte as usize >= q0.len());
}

// a value of the wrong variant is refused and nothing changes; each area is independent
// @unit id=io.write.mismatch props=C07 tier=quick kind=bounded bound="image<=6 bytes, offset<=7" timeout=900 fn=IoInterface::write
#[kani::proof]
#[kani::stub(std::hash::RandomState::new, fixed_rs)]
#[kani::unwind(18)]
fn io_write_mismatch() {
    let (i0, q0, m0) = (vec![0xA5u8, 0x5A], any_image(), vec![0x3Cu8]);
    let mut io = mk_io(i0.clone(), q0.clone(), m0.clone());
    let byte: u32 = kani::any();
    kani::assume(byte <= MAXB);
    let v: u16 = kani::any();
    let r = io.write(&addr(IoArea::Output, IoSize::Byte, byte, 0), Value::Word(v));
    let refused = matches!(&r, Err(RuntimeError::TypeMismatch));
    std::mem::forget(r);
    assert!(refused, "a WORD value is refused at a byte address");
    assert!(io.inputs == i0 && io.outputs == q0 && io.memory == m0, "a refused write changes nothing");
    kani::cover!(byte as usize >= q0.len());
}

// the area selects the image: a write to %M / %I never touches %Q
// (io.write.areas: no CBMC verdict within 60 min; removed -- see DESIGN.md section 7)

// read never panics and decodes little-endian with zero fill, for every offset
// @unit id=io.read.total props=C07 tier=quick kind=bounded bound="image<=6 bytes; offset full u32 (sizes B/W/D)" timeout=900 fn=IoInterface::read
#[kani::proof]
#[kani::stub(std::hash::RandomState::new, fixed_rs)]
#[kani::unwind(18)]
fn io_read_total() {
    let q0 = any_image();
    let io = mk_io(Vec::new(), q0.clone(), Vec::new());
    let byte: u32 = kani::any();
    kani::assume(byte <= u32::MAX - 8);
    let b = byte as usize;
    let r1 = io.read(&addr(IoArea::Output, IoSize::Byte, byte, 0));
    let r2 = io.read(&addr(IoArea::Output, IoSize::Word, byte, 0));
    let r4 = io.read(&addr(IoArea::Output, IoSize::DWord, byte, 0));
    let ok1 = matches!(&r1, Ok(Value::Byte(x)) if *x == at(&q0, b));
    let ok2 = matches!(&r2, Ok(Value::Word(x)) if *x == u16::from_le_bytes([at(&q0, b), at(&q0, b + 1)]));
    let ok4 = matches!(&r4, Ok(Value::DWord(x)) if *x == u32::from_le_bytes([at(&q0, b), at(&q0, b + 1), at(&q0, b + 2), at(&q0, b + 3)]));
    std::mem::forget((r1, r2, r4));
    assert!(ok1 && ok2 && ok4, "read decodes little-endian; bytes beyond the image read as zero");
    kani::cover!(b + 4 <= q0.len());
    kani::cover!(b < q0.len() && b + 4 > q0.len());
    kani::cover!(b >= q0.len());
}

// ---------------------------------------------------------------------------------------------
// C07-C / C03: image <-> variable coercion: tag is the declared type, bit pattern preserved,
// to_io then from_io is the identity
// ---------------------------------------------------------------------------------------------

macro_rules! coerce_roundtrip {
    ($name:ident, $tid:ident, $var:ident, $ty:ty, $size:ident, $iovar:ident, $bits:expr) => {
        #[kani::proof]
        fn $name() {
            let v: $ty = kani::any();
            let to = coerce_to_io(Value::$var(v), TypeId::$tid, IoSize::$size);
            let bits_fn = $bits;
            let ok_to = matches!(&to, Ok(Value::$iovar(b)) if (*b as u64) == bits_fn(v));
            assert!(ok_to, "coerce_to_io yields the raw bit pattern in the image-sized bit string");
            // rebuild the raw image value by reference (moving a Value out of a Result with a symbolic
            // discriminant makes CBMC unwind Value's drop glue without bound)
            let raw = match &to { Ok(Value::$iovar(b)) => Value::$iovar(*b), _ => Value::Null };
            std::mem::forget(to);
            let back = coerce_from_io(raw, TypeId::$tid);
            let ok_back = matches!(&back, Ok(Value::$var(w)) if bits_fn(*w) == bits_fn(v));
            std::mem::forget(back);
            assert!(ok_back, "coerce_from_io returns the declared type's tag with the same bit pattern (inverse of coerce_to_io)");
            // a size that does not match the declared type is refused
            let wrong = coerce_to_io(Value::$var(v), TypeId::$tid, if matches!(IoSize::$size, IoSize::Word) { IoSize::Byte } else { IoSize::Word });
            let refused = matches!(&wrong, Err(RuntimeError::TypeMismatch));
            std::mem::forget(wrong);
            assert!(refused);
            kani::cover!(true);
        }
    };
}

// @unit id=io.coerce.bool props=C07,C03 tier=quick kind=proof fn=coerce_to_io,coerce_from_io,expected_size_for_type
coerce_roundtrip!(io_coerce_bool, BOOL, Bool, bool, Bit, Bool, |x: bool| x as u64);
// @unit id=io.coerce.sint props=C07,C03 tier=quick kind=proof fn=coerce_to_io,coerce_from_io,expected_size_for_type
coerce_roundtrip!(io_coerce_sint, SINT, SInt, i8, Byte, Byte, |x: i8| x as u8 as u64);
// @unit id=io.coerce.usint props=C07,C03 tier=quick kind=proof fn=coerce_to_io,coerce_from_io,expected_size_for_type
coerce_roundtrip!(io_coerce_usint, USINT, USInt, u8, Byte, Byte, |x: u8| x as u64);
// @unit id=io.coerce.byte props=C07,C03 tier=quick kind=proof fn=coerce_to_io,coerce_from_io,expected_size_for_type
coerce_roundtrip!(io_coerce_byte, BYTE, Byte, u8, Byte, Byte, |x: u8| x as u64);
// @unit id=io.coerce.char props=C07,C03 tier=quick kind=proof fn=coerce_to_io,coerce_from_io,expected_size_for_type
coerce_roundtrip!(io_coerce_char, CHAR, Char, u8, Byte, Byte, |x: u8| x as u64);
// @unit id=io.coerce.int props=C07,C03 tier=quick kind=proof fn=coerce_to_io,coerce_from_io,expected_size_for_type
coerce_roundtrip!(io_coerce_int, INT, Int, i16, Word, Word, |x: i16| x as u16 as u64);
// @unit id=io.coerce.uint props=C07,C03 tier=quick kind=proof fn=coerce_to_io,coerce_from_io,expected_size_for_type
coerce_roundtrip!(io_coerce_uint, UINT, UInt, u16, Word, Word, |x: u16| x as u64);
// @unit id=io.coerce.word props=C07,C03 tier=quick kind=proof fn=coerce_to_io,coerce_from_io,expected_size_for_type
coerce_roundtrip!(io_coerce_word, WORD, Word, u16, Word, Word, |x: u16| x as u64);
// @unit id=io.coerce.wchar props=C07,C03 tier=quick kind=proof fn=coerce_to_io,coerce_from_io,expected_size_for_type
coerce_roundtrip!(io_coerce_wchar, WCHAR, WChar, u16, Word, Word, |x: u16| x as u64);
// @unit id=io.coerce.dint props=C07,C03 tier=quick kind=proof fn=coerce_to_io,coerce_from_io,expected_size_for_type
coerce_roundtrip!(io_coerce_dint, DINT, DInt, i32, DWord, DWord, |x: i32| x as u32 as u64);
// @unit id=io.coerce.udint props=C07,C03 tier=quick kind=proof fn=coerce_to_io,coerce_from_io,expected_size_for_type
coerce_roundtrip!(io_coerce_udint, UDINT, UDInt, u32, DWord, DWord, |x: u32| x as u64);
// @unit id=io.coerce.dword props=C07,C03 tier=quick kind=proof fn=coerce_to_io,coerce_from_io,expected_size_for_type
coerce_roundtrip!(io_coerce_dword, DWORD, DWord, u32, DWord, DWord, |x: u32| x as u64);
// @unit id=io.coerce.real props=C07,C03 tier=quick kind=proof fn=coerce_to_io,coerce_from_io,expected_size_for_type
coerce_roundtrip!(io_coerce_real, REAL, Real, f32, DWord, DWord, |x: f32| x.to_bits() as u64);
// @unit id=io.coerce.lint props=C07,C03 tier=quick kind=proof fn=coerce_to_io,coerce_from_io,expected_size_for_type
coerce_roundtrip!(io_coerce_lint, LINT, LInt, i64, LWord, LWord, |x: i64| x as u64);
// @unit id=io.coerce.ulint props=C07,C03 tier=quick kind=proof fn=coerce_to_io,coerce_from_io,expected_size_for_type
coerce_roundtrip!(io_coerce_ulint, ULINT, ULInt, u64, LWord, LWord, |x: u64| x);
// @unit id=io.coerce.lword props=C07,C03 tier=quick kind=proof fn=coerce_to_io,coerce_from_io,expected_size_for_type
coerce_roundtrip!(io_coerce_lword, LWORD, LWord, u64, LWord, LWord, |x: u64| x);
// @unit id=io.coerce.lreal props=C07,C03 tier=quick kind=proof fn=coerce_to_io,coerce_from_io,expected_size_for_type
coerce_roundtrip!(io_coerce_lreal, LREAL, LReal, f64, LWord, LWord, |x: f64| x.to_bits());

// widening source into a narrower declared type: value preserved or Overflow, never a wrapped value
// @unit id=io.coerce.narrowing props=C07,C03 tier=quick kind=proof fn=coerce_to_io
#[kani::proof]
fn io_coerce_narrowing() {
    let v: i32 = kani::any();
    let r = coerce_to_io(Value::DInt(v), TypeId::INT, IoSize::Word);
    let ok = if v >= i16::MIN as i32 && v <= i16::MAX as i32 {
        matches!(&r, Ok(Value::Word(w)) if *w == v as i16 as u16)
    } else {
        matches!(&r, Err(RuntimeError::Overflow))
    };
    kani::cover!(v > i16::MAX as i32);
    kani::cover!(v == -1);
    std::mem::forget(r);
    assert!(ok, "a DINT value bound to an INT address is range-checked, never truncated");
}

// ---------------------------------------------------------------------------------------------
// C07-S / C08: IoSafeState::apply -- afterwards every configured address holds its safe value
// ---------------------------------------------------------------------------------------------

// (io.safe_state.apply: no CBMC verdict within 60 min; removed -- see DESIGN.md section 7)

// overlapping entries: the later entry wins on the shared byte
// (io.safe_state.overlap: no CBMC verdict within 60 min; removed -- see DESIGN.md section 7)
