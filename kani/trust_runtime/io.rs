// contract harnesses for trust-runtime/src/io (included by the verification hook)
