// Contract harnesses for crates/trust-runtime/src/retain.rs  (C10)
//
// RetainReader:  pre  offset <= data.len()  (established by new(), preserved by every read)
//                post Ok(s)  => s == data[off .. off+n], offset' == off + n
//                     Err    => offset' == off  (nothing consumed); never an out-of-bounds index,
//                               for EVERY requested length (usize::MAX included)
// Value codec:   decode_value(encode_value(v)) == v bit for bit and consumes exactly the encoding.
// Hostile input: decode_value never panics and never requests an allocation that is not
//                proportional to the input.

use super::*;
use crate::error::RuntimeError;
use crate::value::{
    DateTimeValue, DateValue, Duration, LDateTimeValue, LDateValue, LTimeOfDayValue, TimeOfDayValue, Value,
};

const DN: usize = 12;

const ALLOC_LIMIT: usize = 16;
fn checked_with_capacity<T>(capacity: usize) -> Vec<T> {
    assert!(capacity <= ALLOC_LIMIT, "memory requested from an untrusted count is proportional to the input");
    Vec::new()
}

// @unit id=retain.reader.read_bytes props=C10 tier=quick kind=bounded bound="data<=12 bytes; offset and requested length full usize" fn=RetainReader::read_bytes
#[kani::proof]
fn retain_reader_read_bytes() {
    let data: [u8; DN] = kani::any();
    let dlen: usize = kani::any();
    kani::assume(dlen <= DN);
    let off: usize = kani::any();
    kani::assume(off <= dlen);
    let n: usize = kani::any();
    let mut r = RetainReader { data: &data[..dlen], offset: off };
    let res = r.read_bytes(n);
    let fits = n <= dlen - off;
    let ok = match &res {
        Ok(s) => fits && s.len() == n && r.offset == off + n && (n == 0 || (s[0] == data[off] && s[n - 1] == data[off + n - 1])),
        Err(RuntimeError::RetainStore(_)) => !fits && r.offset == off,
        Err(_) => false,
    };
    kani::cover!(fits && n > 1);
    kani::cover!(!fits && n == usize::MAX);
    std::mem::forget(res);
    assert!(ok, "read_bytes returns exactly data[off..off+n] and advances, or fails without consuming; never indexes out of bounds");
}

// @unit id=retain.reader.ints props=C10 tier=quick kind=bounded bound="data<=12 bytes; offset full" fn=RetainReader::read_u8,RetainReader::read_u16,RetainReader::read_u32,RetainReader::read_u64,RetainReader::read_i64
#[kani::proof]
fn retain_reader_ints() {
    let data: [u8; DN] = kani::any();
    let dlen: usize = kani::any();
    kani::assume(dlen <= DN);
    let off: usize = kani::any();
    kani::assume(off <= dlen);
    let rem = dlen - off;
    let mut r = RetainReader { data: &data[..dlen], offset: off };
    let a = r.read_u16();
    let ok_a = match &a {
        Ok(v) => rem >= 2 && *v == (data[off] as u16 | (data[off + 1] as u16) << 8) && r.offset == off + 2,
        Err(_) => rem < 2 && r.offset == off,
    };
    std::mem::forget(a);
    let mut r = RetainReader { data: &data[..dlen], offset: off };
    let b = r.read_u32();
    let ok_b = match &b {
        Ok(v) => rem >= 4 && *v == u32::from_le_bytes([data[off], data[off + 1], data[off + 2], data[off + 3]]) && r.offset == off + 4,
        Err(_) => rem < 4 && r.offset == off,
    };
    std::mem::forget(b);
    let mut r = RetainReader { data: &data[..dlen], offset: off };
    let c = r.read_i64();
    let ok_c = match &c {
        Ok(v) => rem >= 8 && r.offset == off + 8 && (*v as u64 & 0xff) as u8 == data[off] && ((*v as u64) >> 56) as u8 == data[off + 7],
        Err(_) => rem < 8 && r.offset == off,
    };
    std::mem::forget(c);
    kani::cover!(rem >= 8);
    kani::cover!(rem == 3);
    assert!(ok_a && ok_b && ok_c, "integers are little-endian, reads are bounds-checked and consume exactly their width");
}

// one harness per tag keeps Value's discriminant concrete
macro_rules! roundtrip {
    ($name:ident, $mk:expr, $ty:ty, $pat:pat => $same:expr) => {
        #[kani::proof]
        fn $name() {
            let x: $ty = kani::any();
            let v: Value = ($mk)(x);
            let mut out = Vec::new();
            let e = encode_value(&mut out, &v);
            let enc_ok = matches!(&e, Ok(()));
            std::mem::forget(e);
            assert!(enc_ok, "every retainable scalar encodes");
            let mut r = RetainReader::new(&out);
            let d = decode_value(&mut r);
            let ok = match &d { Ok($pat) => ($same)(x), _ => false };
            let consumed = r.offset == out.len();
            std::mem::forget(d);
            assert!(ok, "decode(encode(v)) == v, bit for bit, same tag");
            assert!(consumed, "decoding consumes exactly the encoding");
            kani::cover!(out.len() >= 2);
        }
    };
}

// @unit id=retain.rt.bool props=C09,C10 tier=quick kind=proof fn=encode_value,decode_value
roundtrip!(retain_rt_bool, Value::Bool, bool, Value::Bool(y) => |x: bool| *y == x);
// @unit id=retain.rt.sint props=C09,C10 tier=quick kind=proof fn=encode_value,decode_value
roundtrip!(retain_rt_sint, Value::SInt, i8, Value::SInt(y) => |x: i8| *y == x);
// @unit id=retain.rt.int props=C09,C10 tier=quick kind=proof fn=encode_value,decode_value
roundtrip!(retain_rt_int, Value::Int, i16, Value::Int(y) => |x: i16| *y == x);
// @unit id=retain.rt.dint props=C09,C10 tier=quick kind=proof fn=encode_value,decode_value
roundtrip!(retain_rt_dint, Value::DInt, i32, Value::DInt(y) => |x: i32| *y == x);
// @unit id=retain.rt.lint props=C09,C10 tier=quick kind=proof fn=encode_value,decode_value
roundtrip!(retain_rt_lint, Value::LInt, i64, Value::LInt(y) => |x: i64| *y == x);
// @unit id=retain.rt.usint props=C09,C10 tier=quick kind=proof fn=encode_value,decode_value
roundtrip!(retain_rt_usint, Value::USInt, u8, Value::USInt(y) => |x: u8| *y == x);
// @unit id=retain.rt.uint props=C09,C10 tier=quick kind=proof fn=encode_value,decode_value
roundtrip!(retain_rt_uint, Value::UInt, u16, Value::UInt(y) => |x: u16| *y == x);
// @unit id=retain.rt.udint props=C09,C10 tier=quick kind=proof fn=encode_value,decode_value
roundtrip!(retain_rt_udint, Value::UDInt, u32, Value::UDInt(y) => |x: u32| *y == x);
// @unit id=retain.rt.ulint props=C09,C10 tier=quick kind=proof fn=encode_value,decode_value
roundtrip!(retain_rt_ulint, Value::ULInt, u64, Value::ULInt(y) => |x: u64| *y == x);
// @unit id=retain.rt.real props=C09,C10 tier=quick kind=proof fn=encode_value,decode_value
roundtrip!(retain_rt_real, Value::Real, f32, Value::Real(y) => |x: f32| y.to_bits() == x.to_bits());
// @unit id=retain.rt.lreal props=C09,C10 tier=quick kind=proof fn=encode_value,decode_value
roundtrip!(retain_rt_lreal, Value::LReal, f64, Value::LReal(y) => |x: f64| y.to_bits() == x.to_bits());
// @unit id=retain.rt.byte props=C09,C10 tier=quick kind=proof fn=encode_value,decode_value
roundtrip!(retain_rt_byte, Value::Byte, u8, Value::Byte(y) => |x: u8| *y == x);
// @unit id=retain.rt.word props=C09,C10 tier=quick kind=proof fn=encode_value,decode_value
roundtrip!(retain_rt_word, Value::Word, u16, Value::Word(y) => |x: u16| *y == x);
// @unit id=retain.rt.dword props=C09,C10 tier=quick kind=proof fn=encode_value,decode_value
roundtrip!(retain_rt_dword, Value::DWord, u32, Value::DWord(y) => |x: u32| *y == x);
// @unit id=retain.rt.lword props=C09,C10 tier=quick kind=proof fn=encode_value,decode_value
roundtrip!(retain_rt_lword, Value::LWord, u64, Value::LWord(y) => |x: u64| *y == x);
// @unit id=retain.rt.time props=C09,C10 tier=quick kind=proof fn=encode_value,decode_value
roundtrip!(retain_rt_time, |n| Value::Time(Duration::from_nanos(n)), i64, Value::Time(y) => |x: i64| y.as_nanos() == x);
// @unit id=retain.rt.ltime props=C09,C10 tier=quick kind=proof fn=encode_value,decode_value
roundtrip!(retain_rt_ltime, |n| Value::LTime(Duration::from_nanos(n)), i64, Value::LTime(y) => |x: i64| y.as_nanos() == x);
// @unit id=retain.rt.date props=C09,C10 tier=quick kind=proof fn=encode_value,decode_value
roundtrip!(retain_rt_date, |n| Value::Date(DateValue::new(n)), i64, Value::Date(y) => |x: i64| y.ticks() == x);
// @unit id=retain.rt.ldate props=C09,C10 tier=quick kind=proof fn=encode_value,decode_value
roundtrip!(retain_rt_ldate, |n| Value::LDate(LDateValue::new(n)), i64, Value::LDate(y) => |x: i64| y.nanos() == x);
// @unit id=retain.rt.tod props=C09,C10 tier=quick kind=proof fn=encode_value,decode_value
roundtrip!(retain_rt_tod, |n| Value::Tod(TimeOfDayValue::new(n)), i64, Value::Tod(y) => |x: i64| y.ticks() == x);
// @unit id=retain.rt.ltod props=C09,C10 tier=quick kind=proof fn=encode_value,decode_value
roundtrip!(retain_rt_ltod, |n| Value::LTod(LTimeOfDayValue::new(n)), i64, Value::LTod(y) => |x: i64| y.nanos() == x);
// @unit id=retain.rt.dt props=C09,C10 tier=quick kind=proof fn=encode_value,decode_value
roundtrip!(retain_rt_dt, |n| Value::Dt(DateTimeValue::new(n)), i64, Value::Dt(y) => |x: i64| y.ticks() == x);
// @unit id=retain.rt.ldt props=C09,C10 tier=quick kind=proof fn=encode_value,decode_value
roundtrip!(retain_rt_ldt, |n| Value::Ldt(LDateTimeValue::new(n)), i64, Value::Ldt(y) => |x: i64| y.nanos() == x);
// @unit id=retain.rt.char props=C09,C10 tier=quick kind=proof fn=encode_value,decode_value
roundtrip!(retain_rt_char, Value::Char, u8, Value::Char(y) => |x: u8| *y == x);
// @unit id=retain.rt.wchar props=C09,C10 tier=quick kind=proof fn=encode_value,decode_value
roundtrip!(retain_rt_wchar, Value::WChar, u16, Value::WChar(y) => |x: u16| *y == x);

// @unit id=retain.rt.null_and_refs props=C09,C10 tier=quick kind=proof fn=encode_value,decode_value
#[kani::proof]
fn retain_rt_null_and_refs() {
    let mut out = Vec::new();
    let e = encode_value(&mut out, &Value::Null);
    assert!(matches!(&e, Ok(())));
    std::mem::forget(e);
    let mut r = RetainReader::new(&out);
    let d = decode_value(&mut r);
    let ok = matches!(&d, Ok(Value::Null)) && r.offset == out.len();
    std::mem::forget(d);
    assert!(ok);
    let mut out2 = Vec::new();
    let e2 = encode_value(&mut out2, &Value::Reference(None));
    let refused = matches!(&e2, Err(RuntimeError::RetainStore(_)));
    std::mem::forget(e2);
    assert!(refused, "references are never written to the retain file");
    kani::cover!(out.len() == 1);
}

// decode_value on arbitrary bytes with a SYMBOLIC tag is out of reach of CBMC: the function is one
// 30-arm match with recursive container arms, and with a symbolic discriminant every arm stays
// feasible for symbolic execution (three tag-range harnesses with <= 9 payload bytes ran out of
// memory or exceeded 15 minutes). Totality on scalar payloads is therefore covered per tag by the
// round-trip harnesses above plus the reader contracts; it is not claimed for arbitrary tags.

// Hostile container header: an Array tag with arbitrary element / dimension counts must fail with
// an error and must not request memory that is not proportional to the input.
// (Vec::with_capacity is replaced by a checked stub: a request for more elements than the input has bytes fails)
// @unit id=retain.decode.array_header props=C10 tier=quick kind=bounded bound="array tag, len = 0, symbolic u32 dims (full domain), end of data" timeout=1200 fn=decode_value
#[kani::proof]
#[kani::stub(std::vec::Vec::with_capacity, checked_with_capacity)]
#[kani::unwind(3)]
fn retain_decode_array_header() {
    let dims_bytes: [u8; 4] = kani::any();
    let mut data = [0u8; 9];
    data[0] = 28; // ValueTag::Array
    // element count 0 (bytes 1..5), symbolic dimension count (bytes 5..9), then end of data
    data[5..9].copy_from_slice(&dims_bytes);
    let dims = u32::from_le_bytes(dims_bytes);
    kani::assume(dims > 0);
    let mut r = RetainReader::new(&data);
    let d = decode_value(&mut r);
    let is_err = d.is_err();
    kani::cover!(dims == u32::MAX);
    kani::cover!(dims == 1);
    std::mem::forget(d);
    assert!(is_err, "a truncated array header is an error (and no allocation beyond the limit was requested)");
}

// Strings: length prefix is the UTF-8 byte length; one symbolic char over the FULL char domain
// (1..4 bytes) plus a fixed ASCII char.
// @unit id=retain.rt.wstring props=C09,C10 tier=quick kind=bounded bound="one constant WSTRING with 1-, 2-, 3- and 4-byte characters (e-acute, euro, U+1F600, x)" timeout=1200 fn=encode_value,decode_value,encode_string,RetainReader::read_string
#[kani::proof]
#[kani::unwind(16)]
fn retain_rt_wstring() {
    const TEXT: &str = "\u{e9}\u{20ac}\u{1f600}x";
    let v = Value::WString(TEXT.to_string());
    let mut out = Vec::new();
    let e = encode_value(&mut out, &v);
    assert!(matches!(&e, Ok(())));
    std::mem::forget(e);
    assert!(out.len() == 1 + 4 + TEXT.len(), "tag + u32 byte length + the UTF-8 bytes");
    let n = u32::from_le_bytes([out[1], out[2], out[3], out[4]]);
    assert!(n as usize == TEXT.len(), "the length prefix counts bytes (what read_string consumes), not characters");
    let mut r = RetainReader::new(&out);
    let d = decode_value(&mut r);
    let ok = matches!(&d, Ok(Value::WString(t)) if t.as_bytes() == TEXT.as_bytes());
    let consumed = r.offset == out.len();
    std::mem::forget(d);
    kani::cover!(consumed);
    assert!(ok && consumed, "decode(encode(WSTRING)) == the same text, consuming exactly the encoding");
    std::mem::forget(v);
}

// the element-count site of the array header is covered by the Verus unit retain.alloc_sites (a CBMC
// harness through the recursive decode_value runs out of memory)
