// contract harnesses for trust-runtime/src/retain (included by the verification hook)
