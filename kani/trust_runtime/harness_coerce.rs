// contract harnesses for trust-runtime/src/harness_coerce (included by the verification hook)
