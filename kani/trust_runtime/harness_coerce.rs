// Contract harnesses for crates/trust-runtime/src/harness/coerce.rs  (C03)
//
// coerce_value_to_type(v, T) manufactures the initial value stored in a variable declared T:
//   Ok(w)  =>  tag(w) == T  and  num(w) == num(v)  (so w is inside range(T))
//   Err    <=> num(v) is outside range(T)  (for numeric sources)

use super::*;
use crate::value::Value;
use trust_hir::TypeId;

macro_rules! coerce_int {
    ($name:ident, $src:ident, $sty:ty, $tid:ident, $dst:ident, $dty:ty) => {
        #[kani::proof]
        fn $name() {
            let v: $sty = kani::any();
            let r = coerce_value_to_type(Value::$src(v), TypeId::$tid);
            let fits = (v as i128) >= <$dty>::MIN as i128 && (v as i128) <= <$dty>::MAX as i128;
            let ok = if fits { matches!(&r, Ok(Value::$dst(w)) if *w as i128 == v as i128) } else { r.is_err() };
            kani::cover!(fits);
            std::mem::forget(r);
            assert!(ok, "initial value: declared type's tag, same number, rejected iff outside the declared type's range");
        }
    };
}

// @unit id=coerce.lint.to.sint props=C03 tier=quick kind=proof fn=coerce_value_to_type,coerce_signed
coerce_int!(coerce_lint_to_sint, LInt, i64, SINT, SInt, i8);
// @unit id=coerce.lint.to.int props=C03 tier=quick kind=proof fn=coerce_value_to_type,coerce_signed
coerce_int!(coerce_lint_to_int, LInt, i64, INT, Int, i16);
// @unit id=coerce.lint.to.dint props=C03 tier=quick kind=proof fn=coerce_value_to_type,coerce_signed
coerce_int!(coerce_lint_to_dint, LInt, i64, DINT, DInt, i32);
// @unit id=coerce.lint.to.lint props=C03 tier=thorough kind=proof fn=coerce_value_to_type,coerce_signed
coerce_int!(coerce_lint_to_lint, LInt, i64, LINT, LInt, i64);
// @unit id=coerce.ulint.to.lint props=C03 tier=quick kind=proof fn=coerce_value_to_type,coerce_signed
coerce_int!(coerce_ulint_to_lint, ULInt, u64, LINT, LInt, i64);
// @unit id=coerce.dint.to.int props=C03 tier=quick kind=proof fn=coerce_value_to_type,coerce_signed
coerce_int!(coerce_dint_to_int, DInt, i32, INT, Int, i16);
// @unit id=coerce.udint.to.sint props=C03 tier=thorough kind=proof fn=coerce_value_to_type,coerce_signed
coerce_int!(coerce_udint_to_sint, UDInt, u32, SINT, SInt, i8);
// @unit id=coerce.lint.to.usint props=C03 tier=quick kind=proof fn=coerce_value_to_type,coerce_unsigned
coerce_int!(coerce_lint_to_usint, LInt, i64, USINT, USInt, u8);
// @unit id=coerce.lint.to.uint props=C03 tier=quick kind=proof fn=coerce_value_to_type,coerce_unsigned
coerce_int!(coerce_lint_to_uint, LInt, i64, UINT, UInt, u16);
// @unit id=coerce.lint.to.udint props=C03 tier=thorough kind=proof fn=coerce_value_to_type,coerce_unsigned
coerce_int!(coerce_lint_to_udint, LInt, i64, UDINT, UDInt, u32);
// @unit id=coerce.lint.to.ulint props=C03 tier=quick kind=proof fn=coerce_value_to_type,coerce_unsigned
coerce_int!(coerce_lint_to_ulint, LInt, i64, ULINT, ULInt, u64);
// @unit id=coerce.ulint.to.uint props=C03 tier=thorough kind=proof fn=coerce_value_to_type,coerce_unsigned
coerce_int!(coerce_ulint_to_uint, ULInt, u64, UINT, UInt, u16);
// @unit id=coerce.dint.to.usint props=C03 tier=quick kind=proof fn=coerce_value_to_type,coerce_unsigned
coerce_int!(coerce_dint_to_usint, DInt, i32, USINT, USInt, u8);
// @unit id=coerce.dint.to.byte props=C03 tier=quick kind=proof fn=coerce_value_to_type,coerce_bitstring
coerce_int!(coerce_dint_to_byte, DInt, i32, BYTE, Byte, u8);
// @unit id=coerce.lint.to.word props=C03 tier=quick kind=proof fn=coerce_value_to_type,coerce_bitstring
coerce_int!(coerce_lint_to_word, LInt, i64, WORD, Word, u16);
// @unit id=coerce.ulint.to.dword props=C03 tier=thorough kind=proof fn=coerce_value_to_type,coerce_bitstring
coerce_int!(coerce_ulint_to_dword, ULInt, u64, DWORD, DWord, u32);
// @unit id=coerce.lword.to.lword props=C03 tier=thorough kind=proof fn=coerce_value_to_type,coerce_bitstring
coerce_int!(coerce_lword_to_lword, LWord, u64, LWORD, LWord, u64);
// @unit id=coerce.word.to.byte props=C03 tier=quick kind=proof fn=coerce_value_to_type,coerce_bitstring
coerce_int!(coerce_word_to_byte, Word, u16, BYTE, Byte, u8);

// tag-only targets: the declared tag or a rejection, never another tag
// @unit id=coerce.tags props=C03 tier=quick kind=proof fn=coerce_value_to_type,coerce_time,coerce_date,coerce_tod,coerce_dt
#[kani::proof]
fn coerce_tags() {
    use crate::value::{DateTimeValue, DateValue, Duration, TimeOfDayValue};
    let n: i64 = kani::any();
    let b: bool = kani::any();
    let r0 = coerce_value_to_type(Value::Bool(b), TypeId::BOOL);
    let r1 = coerce_value_to_type(Value::LTime(Duration::from_nanos(n)), TypeId::TIME);
    let r2 = coerce_value_to_type(Value::Time(Duration::from_nanos(n)), TypeId::LTIME);
    let r3 = coerce_value_to_type(Value::Date(DateValue::new(n)), TypeId::DATE);
    let r4 = coerce_value_to_type(Value::Tod(TimeOfDayValue::new(n)), TypeId::TOD);
    let r5 = coerce_value_to_type(Value::Dt(DateTimeValue::new(n)), TypeId::DT);
    let r6 = coerce_value_to_type(Value::Date(DateValue::new(n)), TypeId::TOD);
    let r7 = coerce_value_to_type(Value::DInt(n as i32), TypeId::BOOL);
    let ok = matches!(&r0, Ok(Value::Bool(x)) if *x == b)
        && matches!(&r1, Ok(Value::Time(d)) if d.as_nanos() == n)
        && matches!(&r2, Ok(Value::LTime(d)) if d.as_nanos() == n)
        && matches!(&r3, Ok(Value::Date(d)) if d.ticks() == n)
        && matches!(&r4, Ok(Value::Tod(d)) if d.ticks() == n)
        && matches!(&r5, Ok(Value::Dt(d)) if d.ticks() == n)
        && r6.is_err()
        && r7.is_err();
    kani::cover!(n < 0);
    std::mem::forget((r0, r1, r2, r3, r4, r5, r6, r7));
    assert!(ok, "BOOL/TIME/DATE/TOD/DT initial values carry the declared tag; a value of another family is rejected");
}
