// contract harnesses for trust-runtime/src/value_datetime (included by the verification hook)
