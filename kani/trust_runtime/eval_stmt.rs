// contract harnesses for trust-runtime/src/eval_stmt (included by the verification hook)
