// Contract harnesses for the private FOR helpers of crates/trust-runtime/src/eval/stmt.rs (C01, C02, C03)

use super::*;
use crate::error::RuntimeError;
use crate::value::Value;

// coerce_loop_value(template, n): the control variable keeps the template's type tag and holds n,
// or the cycle faults with Overflow when n does not fit -- never a value of another type.
macro_rules! loop_value_signed {
    ($name:ident, $var:ident, $ty:ty) => {
        #[kani::proof]
        fn $name() {
            let n: i64 = kani::any();
            let t: $ty = kani::any();
            let r = coerce_loop_value(&Value::$var(t), n);
            let fits = n >= <$ty>::MIN as i64 && n <= <$ty>::MAX as i64;
            let ok = if fits { matches!(&r, Ok(Value::$var(v)) if *v as i64 == n) } else { matches!(&r, Err(RuntimeError::Overflow)) };
            kani::cover!(fits);
            std::mem::forget(r);
            assert!(ok, "FOR control value: same type tag as the control variable, value n, Overflow iff n does not fit");
        }
    };
}
// @unit id=stmt.loop_value.sint props=C01,C02,C03 tier=quick kind=proof fn=coerce_loop_value
loop_value_signed!(stmt_loop_value_sint, SInt, i8);
// @unit id=stmt.loop_value.int props=C01,C02,C03 tier=quick kind=proof fn=coerce_loop_value
loop_value_signed!(stmt_loop_value_int, Int, i16);
// @unit id=stmt.loop_value.dint props=C01,C02,C03 tier=quick kind=proof fn=coerce_loop_value
loop_value_signed!(stmt_loop_value_dint, DInt, i32);
// @unit id=stmt.loop_value.lint props=C01,C02,C03 tier=quick kind=proof fn=coerce_loop_value
loop_value_signed!(stmt_loop_value_lint, LInt, i64);

// Unsigned control variable, non-negative n (a negative n is known finding K3: TypeMismatch).
macro_rules! loop_value_unsigned {
    ($name:ident, $var:ident, $ty:ty) => {
        #[kani::proof]
        fn $name() {
            let n: i64 = kani::any();
            kani::assume(n >= 0); // known finding K3 excluded: n < 0 yields the static-class error TypeMismatch
            let t: $ty = kani::any();
            let r = coerce_loop_value(&Value::$var(t), n);
            let fits = (n as u64) <= <$ty>::MAX as u64;
            let ok = if fits { matches!(&r, Ok(Value::$var(v)) if *v as u64 == n as u64) } else { matches!(&r, Err(RuntimeError::Overflow)) };
            kani::cover!(fits && n > 0);
            std::mem::forget(r);
            assert!(ok, "FOR control value (unsigned): same type tag, value n, Overflow iff n does not fit");
        }
    };
}
// @unit id=stmt.loop_value.usint props=C01,C02,C03 tier=quick kind=proof fn=coerce_loop_value
loop_value_unsigned!(stmt_loop_value_usint, USInt, u8);
// @unit id=stmt.loop_value.uint props=C01,C02,C03 tier=thorough kind=proof fn=coerce_loop_value
loop_value_unsigned!(stmt_loop_value_uint, UInt, u16);
// @unit id=stmt.loop_value.udint props=C01,C02,C03 tier=thorough kind=proof fn=coerce_loop_value
loop_value_unsigned!(stmt_loop_value_udint, UDInt, u32);
// @unit id=stmt.loop_value.ulint props=C01,C02,C03 tier=quick kind=proof fn=coerce_loop_value
loop_value_unsigned!(stmt_loop_value_ulint, ULInt, u64);

// witness of known finding K3 (prints KNOWN-FINDING while it is still present)
// @unit id=stmt.loop_value.K3_witness props=C01 tier=quick kind=proof known=K3-for-unsigned-negative fn=coerce_loop_value
#[kani::proof]
fn stmt_loop_value_k3_witness() {
    let n: i64 = kani::any();
    let r = coerce_loop_value(&Value::UInt(0), n);
    let hit = n < 0 && matches!(&r, Err(RuntimeError::TypeMismatch));
    std::mem::forget(r);
    kani::cover!(hit);
}

// int_value: the FOR bounds are taken at their mathematical value.
// @unit id=stmt.int_value props=C01,C02 tier=quick kind=proof fn=int_value,is_unsigned_int
#[kani::proof]
fn stmt_int_value() {
    let a: i8 = kani::any();
    let b: i16 = kani::any();
    let c: i32 = kani::any();
    let d: i64 = kani::any();
    let e: u8 = kani::any();
    let f: u16 = kani::any();
    let g: u32 = kani::any();
    let ok = matches!(int_value(Value::SInt(a)), Ok(v) if v as i128 == a as i128)
        && matches!(int_value(Value::Int(b)), Ok(v) if v as i128 == b as i128)
        && matches!(int_value(Value::DInt(c)), Ok(v) if v as i128 == c as i128)
        && matches!(int_value(Value::LInt(d)), Ok(v) if v as i128 == d as i128)
        && matches!(int_value(Value::USInt(e)), Ok(v) if v as i128 == e as i128)
        && matches!(int_value(Value::UInt(f)), Ok(v) if v as i128 == f as i128)
        && matches!(int_value(Value::UDInt(g)), Ok(v) if v as i128 == g as i128);
    assert!(ok, "int_value preserves the mathematical value of every integer operand");
    assert!(is_unsigned_int(&Value::USInt(e)) && is_unsigned_int(&Value::ULInt(0)) && !is_unsigned_int(&Value::LInt(d)) && !is_unsigned_int(&Value::Int(b)));
    kani::cover!(d < 0);
}

// ULINT bound: value preserved, or a fault when it does not fit the 64-bit signed loop counter.
// @unit id=stmt.int_value.ulint props=C01,C02 tier=quick kind=proof fn=int_value
#[kani::proof]
fn stmt_int_value_ulint() {
    let h: u64 = kani::any();
    let r = int_value(Value::ULInt(h));
    let ok = if h <= i64::MAX as u64 { matches!(&r, Ok(v) if *v as i128 == h as i128) } else { matches!(&r, Err(RuntimeError::Overflow)) };
    kani::cover!(h > i64::MAX as u64);
    kani::cover!(h <= i64::MAX as u64);
    std::mem::forget(r);
    assert!(ok, "a ULINT FOR bound is taken at its value, or faults with Overflow -- never silently wrapped to a negative number");
}
