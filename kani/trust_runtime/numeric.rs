// contract harnesses for trust-runtime/src/numeric (included by the verification hook)
