// Contract harnesses for the runtime module (hooked at the end of runtime/core.rs)  (C08)
//
// IoSubsystem::apply_safe_state: after Ok, the output image holds the safe values AND every
// registered driver was handed that image exactly once -- whatever health the driver reports
// (a driver whose bus error caused the fault is the one that most needs the safe image).

use super::super::io_subsystem::IoSubsystem;
use crate::error::RuntimeError;
use crate::io::{IoAddress, IoDriver, IoDriverHealth, IoSafeState, IoSize};
use crate::memory::IoArea;
use crate::value::Value;
use std::sync::atomic::{AtomicUsize, Ordering};

fn fixed_rs() -> std::hash::RandomState {
    verif_support::fixed_random_state()
}

static CALLS_A: AtomicUsize = AtomicUsize::new(0);
static CALLS_B: AtomicUsize = AtomicUsize::new(0);
static SEEN_A: AtomicUsize = AtomicUsize::new(0xFFFF);
static SEEN_B: AtomicUsize = AtomicUsize::new(0xFFFF);

struct MockDriver {
    which: u8,
    faulted: bool,
    fail_write: bool,
}

impl IoDriver for MockDriver {
    fn read_inputs(&mut self, _inputs: &mut [u8]) -> Result<(), RuntimeError> {
        Ok(())
    }
    fn write_outputs(&mut self, outputs: &[u8]) -> Result<(), RuntimeError> {
        let first = if outputs.is_empty() { 0x100 } else { outputs[0] as usize };
        if self.which == 0 {
            CALLS_A.fetch_add(1, Ordering::SeqCst);
            SEEN_A.store(first, Ordering::SeqCst);
        } else {
            CALLS_B.fetch_add(1, Ordering::SeqCst);
            SEEN_B.store(first, Ordering::SeqCst);
        }
        if self.fail_write {
            return Err(RuntimeError::NullReference); // any driver error
        }
        Ok(())
    }
    fn health(&self) -> IoDriverHealth {
        if self.faulted {
            IoDriverHealth::Faulted { error: "bus".into() }
        } else {
            IoDriverHealth::Ok
        }
    }
}

// (io.safe_state.drivers -- the same harness with a non-empty safe state -- gives no CBMC verdict within 60 min;
// IoSafeState::apply itself is proved by the Verus unit io.safe_state.loop)

// the driver loop alone (empty safe state): every driver is handed the image once, whatever its health AND
// whatever the other drivers answer -- "that image is delivered to every driver before the fault is
// reported" (a driver that refuses the write must not keep the safe image from the drivers after it)
// @unit id=io.safe_state.driver_loop props=C08 tier=quick kind=bounded bound="2 drivers (symbolic health, symbolic write failure), empty safe state, 1-byte image" timeout=1500 fn=IoSubsystem::apply_safe_state
#[kani::proof]
#[kani::stub(std::hash::RandomState::new, fixed_rs)]
#[kani::unwind(8)]
fn io_safe_state_driver_loop() {
    let mut io = IoSubsystem::new();
    io.resize(0, 1, 0);
    let (fa, fb): (bool, bool) = (kani::any(), kani::any());
    let (wa, wb): (bool, bool) = (kani::any(), kani::any());
    io.add_driver("a", Box::new(MockDriver { which: 0, faulted: fa, fail_write: wa }));
    io.add_driver("b", Box::new(MockDriver { which: 1, faulted: fb, fail_write: wb }));
    let r = io.apply_safe_state();
    let ok = matches!(&r, Ok(()));
    std::mem::forget(r);
    assert!(CALLS_A.load(Ordering::SeqCst) == 1 && CALLS_B.load(Ordering::SeqCst) == 1, "every driver receives the image exactly once, whatever its health and whatever another driver answered");
    assert!(ok == (!wa && !wb), "a driver's refusal is reported to the caller");
    kani::cover!(fa && !fb);
    kani::cover!(wa && !wb);
    kani::cover!(!wa && wb);
    std::mem::forget(io);
}
