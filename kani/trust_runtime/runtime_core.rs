// contract harnesses for trust-runtime/src/runtime_core (included by the verification hook)
