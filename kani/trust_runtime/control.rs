// Contract harnesses for crates/trust-runtime/src/control.rs  (C18)
//
// The dispatcher arms are extracted from control/handlers/*.rs on every run into control_arms.in
// (CHUNKS); the minimum role per arm comes from /verif/spec/control_roles.json, written from the
// property statement: an arm that is not listed read-only there is mutating and must require more
// than the viewer role.

use super::*;
use crate::security::AccessRole;

include!("/verif/gen/kani/trust_runtime/control_arms.in");

fn check_chunk(k: usize) {
    let chunk = CHUNKS[k];
    let mut i = 0;
    let mut seen = 0usize;
    while i < chunk.len() {
        let (name, read_only, debug_file) = chunk[i];
        let role = required_role_for_control_request(name, None);
        if !read_only {
            assert!(role > AccessRole::Viewer, "every request type that can change state requires more than the viewer role");
            assert!(!AccessRole::Viewer.allows(role), "a viewer credential is refused for a mutating request");
        }
        assert!(AccessRole::Admin.allows(role), "an admin credential is sufficient for every request type");
        // debug-class set: exactly the arms of the debug and variables dispatchers
        assert!(is_debug_request(name) == debug_file, "debug-class requests are exactly the debug/variables dispatcher arms");
        seen += 1;
        i += 1;
    }
    kani::cover!(seen == chunk.len() && seen > 0);
}

// @unit id=ctl.roles.chunk0 props=C18 tier=quick kind=proof timeout=600 fn=required_role_for_control_request,is_debug_request,AccessRole::allows
#[kani::proof]
#[kani::unwind(40)]
fn ctl_roles_chunk0() { check_chunk(0); }
// @unit id=ctl.roles.chunk1 props=C18 tier=quick kind=proof timeout=600 fn=required_role_for_control_request,is_debug_request,AccessRole::allows
#[kani::proof]
#[kani::unwind(40)]
fn ctl_roles_chunk1() { check_chunk(1); }
// @unit id=ctl.roles.chunk2 props=C18 tier=quick kind=proof timeout=600 fn=required_role_for_control_request,is_debug_request,AccessRole::allows
#[kani::proof]
#[kani::unwind(40)]
fn ctl_roles_chunk2() { check_chunk(2); }
// @unit id=ctl.roles.chunk3 props=C18 tier=quick kind=proof timeout=600 fn=required_role_for_control_request,is_debug_request,AccessRole::allows
#[kani::proof]
#[kani::unwind(40)]
fn ctl_roles_chunk3() { check_chunk(3); }
// @unit id=ctl.roles.chunk4 props=C18 tier=quick kind=proof timeout=600 fn=required_role_for_control_request,is_debug_request,AccessRole::allows
#[kani::proof]
#[kani::unwind(40)]
fn ctl_roles_chunk4() { check_chunk(4); }
// @unit id=ctl.roles.chunk5 props=C18 tier=quick kind=proof timeout=600 fn=required_role_for_control_request,is_debug_request,AccessRole::allows
#[kani::proof]
#[kani::unwind(40)]
fn ctl_roles_chunk5() { check_chunk(5); }
// @unit id=ctl.roles.chunk6 props=C18 tier=quick kind=proof timeout=600 fn=required_role_for_control_request,is_debug_request,AccessRole::allows
#[kani::proof]
#[kani::unwind(40)]
fn ctl_roles_chunk6() { check_chunk(6); }
// @unit id=ctl.roles.chunk7 props=C18 tier=quick kind=proof timeout=600 fn=required_role_for_control_request,is_debug_request,AccessRole::allows
#[kani::proof]
#[kani::unwind(40)]
fn ctl_roles_chunk7() { check_chunk(7); }

// Role order: Viewer < Operator < Engineer < Admin, `allows` is the order (all 16 pairs, symbolic).
fn role_from(k: u8) -> AccessRole {
    match k {
        0 => AccessRole::Viewer,
        1 => AccessRole::Operator,
        2 => AccessRole::Engineer,
        _ => AccessRole::Admin,
    }
}

// @unit id=ctl.role.order props=C18 tier=quick kind=proof fn=AccessRole::allows
#[kani::proof]
fn ctl_role_order() {
    let a: u8 = kani::any();
    let b: u8 = kani::any();
    let c: u8 = kani::any();
    kani::assume(a < 4 && b < 4 && c < 4);
    let (ra, rb, rc) = (role_from(a), role_from(b), role_from(c));
    // monotone in the rank: allows(x, y) <=> rank(x) >= rank(y)
    assert!(ra.allows(rb) == (a >= b), "role order is Viewer < Operator < Engineer < Admin");
    // reflexive, total, transitive
    assert!(ra.allows(ra));
    assert!(ra.allows(rb) || rb.allows(ra));
    assert!(!(ra.allows(rb) && rb.allows(rc)) || ra.allows(rc));
    kani::cover!(a == 0 && b == 3);
    kani::cover!(a == 3 && b == 0);
}

// config.set: more than viewer whatever the parameters; Admin when a credential/mode key is present.
fn config_set_role_with_key(key: &str) -> AccessRole {
    let mut m = serde_json::Map::new();
    m.insert(key.to_string(), serde_json::Value::Null);
    let obj = serde_json::Value::Object(m);
    let r = required_role_for_control_request("config.set", Some(&obj));
    std::mem::forget(obj);
    r
}

// @unit id=ctl.config_set.plain props=C18 tier=quick kind=proof timeout=900 fn=required_role_for_control_request,required_role_for_config_set
#[kani::proof]
#[kani::unwind(40)]
fn ctl_config_set_plain() {
    let none = required_role_for_control_request("config.set", None);
    assert!(none > AccessRole::Viewer, "config.set requires more than viewer");
    let null = serde_json::Value::Null;
    let r_null = required_role_for_control_request("config.set", Some(&null));
    assert!(r_null > AccessRole::Viewer);
    kani::cover!(none == AccessRole::Engineer);
}

macro_rules! config_key_harness {
    ($name:ident, $idx:expr) => {
        #[kani::proof]
        #[kani::unwind(40)]
        fn $name() {
            assert!($idx < CREDENTIAL_KEYS.len());
            let r = config_set_role_with_key(CREDENTIAL_KEYS[$idx]);
            assert!(r == AccessRole::Admin, "changing credentials or the control mode requires the admin role");
            kani::cover!(r == AccessRole::Admin);
        }
    };
}
// @unit id=ctl.config_set.key0 props=C18 tier=quick kind=proof timeout=900 fn=required_role_for_control_request,required_role_for_config_set
config_key_harness!(ctl_config_set_key0, 0);
// @unit id=ctl.config_set.key1 props=C18 tier=quick kind=proof timeout=900 fn=required_role_for_control_request,required_role_for_config_set
config_key_harness!(ctl_config_set_key1, 1);
// @unit id=ctl.config_set.key2 props=C18 tier=quick kind=proof timeout=900 fn=required_role_for_control_request,required_role_for_config_set
config_key_harness!(ctl_config_set_key2, 2);
// @unit id=ctl.config_set.key3 props=C18 tier=quick kind=proof timeout=900 fn=required_role_for_control_request,required_role_for_config_set
config_key_harness!(ctl_config_set_key3, 3);

// A credential key NEXT TO ordinary keys (the `any` in required_role_for_config_set) is not under contract:
// a serde_json::Map with two keys (two BTreeMap insertions of String keys) gave no verdict in CBMC within
// 25 min / crashed the solver, and the iterator adapter `.keys().any(..)` is outside Verus' subset.
