// contract harnesses for trust-runtime/src/control (included by the verification hook)
