// contract harnesses for trust-runtime/src/bytecode_reader (included by the verification hook)
