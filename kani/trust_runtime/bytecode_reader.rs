// Contract harnesses for crates/trust-runtime/src/bytecode/reader.rs  (C11)
//
// BytecodeReader:  inv   cursor <= data.len()
//                  pre   len <= u32::MAX  (every caller passes a widened u32 or a small constant, so
//                        `cursor + len` cannot overflow usize on a 64-bit target)
//                  post  Ok(s) => s == data[cur .. cur+len], cursor' == cur + len
//                        Err(UnexpectedEof) => cursor' == cur; never an out-of-bounds index

use super::*;

const DN: usize = 12;

// @unit id=bc.reader.read_bytes props=C11 tier=quick kind=bounded bound="data<=12 bytes; cursor full, requested length full u32" fn=BytecodeReader::read_bytes,BytecodeReader::remaining,BytecodeReader::pos
#[kani::proof]
fn bc_reader_read_bytes() {
    let data: [u8; DN] = kani::any();
    let dlen: usize = kani::any();
    kani::assume(dlen <= DN);
    let cur: usize = kani::any();
    kani::assume(cur <= dlen);
    let n32: u32 = kani::any();
    let n = n32 as usize;
    let mut r = BytecodeReader { data: &data[..dlen], cursor: cur };
    assert!(r.remaining() == dlen - cur && r.pos() == cur);
    let res = r.read_bytes(n);
    let fits = n <= dlen - cur;
    let ok = match &res {
        Ok(s) => fits && s.len() == n && r.cursor == cur + n && (n == 0 || (s[0] == data[cur] && s[n - 1] == data[cur + n - 1])),
        Err(BytecodeError::UnexpectedEof) => !fits && r.cursor == cur,
        Err(_) => false,
    };
    kani::cover!(fits && n > 1);
    kani::cover!(!fits && n32 == u32::MAX);
    std::mem::forget(res);
    assert!(ok, "read_bytes returns exactly data[cur..cur+n] and advances, or UnexpectedEof without consuming");
}

// @unit id=bc.reader.ints props=C11 tier=quick kind=bounded bound="data<=12 bytes; cursor full" fn=BytecodeReader::read_u8,BytecodeReader::read_u16,BytecodeReader::read_u32,BytecodeReader::read_i32,BytecodeReader::read_u64,BytecodeReader::read_i64
#[kani::proof]
fn bc_reader_ints() {
    let data: [u8; DN] = kani::any();
    let dlen: usize = kani::any();
    kani::assume(dlen <= DN);
    let cur: usize = kani::any();
    kani::assume(cur <= dlen);
    let rem = dlen - cur;
    let mut r = BytecodeReader { data: &data[..dlen], cursor: cur };
    let a = r.read_u16();
    let ok_a = match &a {
        Ok(v) => rem >= 2 && *v == (data[cur] as u16 | (data[cur + 1] as u16) << 8) && r.cursor == cur + 2,
        Err(_) => rem < 2 && r.cursor == cur,
    };
    std::mem::forget(a);
    let mut r = BytecodeReader { data: &data[..dlen], cursor: cur };
    let b = r.read_i32();
    let ok_b = match &b {
        Ok(v) => rem >= 4 && *v == i32::from_le_bytes([data[cur], data[cur + 1], data[cur + 2], data[cur + 3]]) && r.cursor == cur + 4,
        Err(_) => rem < 4 && r.cursor == cur,
    };
    std::mem::forget(b);
    let mut r = BytecodeReader { data: &data[..dlen], cursor: cur };
    let c = r.read_u64();
    let ok_c = match &c {
        Ok(v) => rem >= 8 && r.cursor == cur + 8 && (*v & 0xff) as u8 == data[cur] && (*v >> 56) as u8 == data[cur + 7],
        Err(_) => rem < 8 && r.cursor == cur,
    };
    std::mem::forget(c);
    let mut r = BytecodeReader { data: &data[..dlen], cursor: cur };
    let d = r.read_u8();
    let ok_d = match &d {
        Ok(v) => rem >= 1 && *v == data[cur] && r.cursor == cur + 1,
        Err(_) => rem < 1 && r.cursor == cur,
    };
    std::mem::forget(d);
    kani::cover!(rem >= 8);
    kani::cover!(rem == 3);
    assert!(ok_a && ok_b && ok_c && ok_d, "integers are little-endian, reads are bounds-checked and consume exactly their width");
}
