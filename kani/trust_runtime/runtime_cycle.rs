// contract harnesses for trust-runtime/src/runtime_cycle (included by the verification hook)
