"""Verus engine: templates under /verif/verus/*.rs.tmpl hold the hand-written part of a unit (spec
functions, contracts, prelude stubs, lemmas); `//@item` / `//@slice` directives are replaced on every
run by text extracted verbatim from /repo's working tree (lib/extract.py), with the contract clauses
spliced in. The result is one single-file Verus crate per unit plus a canary copy (vacuity guard)."""
import json
import os
import re
import shlex

import extract
from common import GEN, REPO, VERIF, run, sha256_bytes

TMPL_DIR = os.path.join(VERIF, "verus")
OUT_DIR = os.path.join(GEN, "verus")
KV_RE = re.compile(r'(\w+)=("([^"]*)"|\S+)')

DEFINITE = (
    "postcondition not satisfied", "precondition not satisfied", "assertion failed",
    "invariant not satisfied", "possible arithmetic underflow/overflow", "possible division by zero",
    "decreases not satisfied", "could not prove termination", "possible bit shift underflow/overflow",
    "loop invariant not satisfied", "invariant not satisfied at end of loop body",
    "invariant not satisfied before loop", "unreachable", "recommendation not met",
    "constructed value may fail to meet its declared type invariant",
)


class VUnit:
    def __init__(self, path, head):
        self.path = path
        self.id = head["id"]
        self.props = head["props"].split(",")
        self.fns = head.get("fns", "").split(",") if head.get("fns") else []
        self.tier = "quick"
        self.kind = "proof"
        self.engine = "verus"
        self.statement = head.get("statement", "")
        # known-finding witness unit: the contract is taken from the property and FAILS on the unchanged tree at
        # exactly one recorded call site (`known_at` = text of the line Verus reports); any other failure is a violation
        self.known = head.get("known", "")
        self.known_at = head.get("known_at", "")


def kv(s):
    return {k: (q if v.startswith('"') else v) for k, v, q in KV_RE.findall(s)}


def load_units():
    units = []
    if not os.path.isdir(TMPL_DIR):
        return units
    for f in sorted(os.listdir(TMPL_DIR)):
        if not f.endswith(".rs.tmpl"):
            continue
        p = os.path.join(TMPL_DIR, f)
        for line in open(p):
            if line.startswith("//@unit"):
                units.append(VUnit(p, kv(line[len("//@unit"):])))
                break
        else:
            raise SystemExit(f"verus template {p} has no //@unit line")
    return units


def annotate_loops(body, loops, exlog):
    """R5: a `for P in E {` header named by a //@loop directive becomes `for P in it: E invariant .. {`
    (ghost iterator name + invariant clauses; the pattern and the iterated expression are unchanged)."""
    for header, inv in loops:
        if body.count(header) != 1:
            raise extract.ExtractError(f"loop header `{header}`: expected exactly one match, found {body.count(header)}")
        ml = re.match(r"(.*\bloop)\s*\{\s*$", header, re.S)
        m = re.match(r"\s*for\s+(.+?)\s+in\s+(.+?)\s*\{\s*$", header)
        mw = re.match(r"(\s*while\s+.+?)\s*\{\s*$", header, re.S)
        if mw and not ml and not m:
            # `while C {`: the clauses go between the condition and `{` (condition unchanged)
            own = any(re.match(r"\s*(invariant_except_break|invariant|ensures|decreases)\b", l) for l in inv)
            new = f"{mw.group(1)}\n" + ("" if own else "    invariant\n") + "\n".join(inv) + "\n    {"
        elif ml:
            # an unconditional `loop {`: the invariant clauses go between `loop` and `{`
            # (clause lines may name their own kind: invariant_except_break / invariant / ensures)
            own = any(re.match(r"\s*(invariant_except_break|invariant|ensures|decreases)\b", l) for l in inv)
            new = f"{ml.group(1)}\n" + ("" if own else "    invariant\n") + "\n".join(inv) + "\n    {"
        elif m:
            # an `iter=<name>` clause line names the ghost iterator (default `it`; nested loops need distinct names)
            itname = "it"
            for l in list(inv):
                mi = re.match(r"\s*iter=(\w+)\s*,?\s*$", l)
                if mi:
                    itname = mi.group(1)
                    inv = [x for x in inv if x is not l]
            new = f"for {m.group(1)} in {itname}: {m.group(2)}\n    invariant\n" + "\n".join(inv) + "\n    {"
        else:
            raise extract.ExtractError(f"loop header `{header}` is not a `for P in E {{`, `while C {{` or `loop {{` header")
        body = body.replace(header, new)
        exlog["rules_applied"].append({"where": "loop annotation", "loop_header": header, "invariant_clauses": len(inv)})
    return body


def annotate_closures(body, closures, exlog):
    """R5b: a closure `|p| EXPR` named by a //@closure directive becomes `|p| -> (r: T) ensures E { EXPR }`
    (return name and postcondition added, parameters and body expression unchanged); Verus checks the
    closure body against that postcondition."""
    for text, annot in closures:
        if body.count(text) != 1:
            raise extract.ExtractError(f"closure `{text}`: expected exactly one match, found {body.count(text)}")
        m = re.match(r"(\|[^|]*\|)\s*(.+)$", text, re.S)
        if not m:
            raise extract.ExtractError(f"closure `{text}` is not of the form |params| expr")
        body = body.replace(text, f"{m.group(1)} -> {annot.strip()} {{ {m.group(2)} }}")
        exlog["rules_applied"].append({"where": "closure annotation", "closure": text, "annotation": annot.strip()})
    return body


def build(unit):
    """Instantiate the template. Returns dict(text, extraction log, errors)."""
    lines = open(unit.path).read().split("\n")
    out = []
    exlog = {"unit": unit.id, "items": [], "rules_applied": [], "dropped": []}
    errors = []
    i = 0
    cache = {}

    def load(rel):
        if rel not in cache:
            p = os.path.join(REPO, rel)
            src = open(p).read()
            cache[rel] = (src, extract.mask(src))
        return cache[rel]

    while i < len(lines):
        line = lines[i]
        st = line.strip()
        if st.startswith("//@item") or st.startswith("//@slice"):
            is_slice = st.startswith("//@slice")
            d = kv(st)
            clauses, sig, pre, post, drops, wrap = [], "", [], [], [], ""
            loops = []  # [(header text, [invariant clause lines])]
            closures = []  # [(closure text, annotation)]
            i += 1
            while i < len(lines) and lines[i].strip() != "//@end":
                l = lines[i].strip()
                if l.startswith("//@|"):
                    clauses.append("    " + l[4:].rstrip())
                elif l.startswith("//@sig"):
                    sig = l[len("//@sig"):].strip()
                elif l.startswith("//@pre"):
                    pre.append("    " + l[len("//@pre"):].strip())
                elif l.startswith("//@post"):
                    post.append("    " + l[len("//@post"):].strip())
                elif l.startswith("//@drop"):
                    drops.append(l[len("//@drop"):].strip())
                elif l.startswith("//@wrap"):
                    wrap = l[len("//@wrap"):].strip()
                elif l.startswith("//@loop"):
                    loops.append((l[len("//@loop"):].strip(), []))
                elif l.startswith("//@closure"):
                    closures.append([l[len("//@closure"):].strip(), ""])
                elif l.startswith("//@^"):
                    if not closures:
                        errors.append(f"{unit.path}:{i+1}: //@^ without //@closure")
                    else:
                        closures[-1][1] += " " + l[4:].strip()
                elif l.startswith("//@~"):
                    if not loops:
                        errors.append(f"{unit.path}:{i+1}: //@~ without //@loop")
                    else:
                        loops[-1][1].append("        " + l[4:].rstrip())
                elif l:
                    errors.append(f"{unit.path}:{i+1}: unexpected line inside directive: {l}")
                i += 1
            i += 1  # skip //@end
            try:
                src, masked = load(d["file"])
                if is_slice:
                    s, e = extract.extract_slice(src, masked, d["fn"], d["start"], d["end"], exact=d.get("exact") == "1", end_last=d.get("endlast") == "1", stmts=int(d.get("stmts", "1")))
                    body = src[s:e]
                    where = f"{d['file']}:{extract.line_of(src, s)}-{extract.line_of(src, e)} slice of {d['fn']}"
                    body = extract.transform(body, exlog["rules_applied"], where)
                    body = extract.drop_statements(body, drops, exlog["dropped"], where)
                    body = annotate_loops(body, loops, exlog)
                    body = annotate_closures(body, closures, exlog)
                    text = sig + "\n" + "\n".join(clauses) + ("\n" if clauses else "") + "{\n" + "\n".join(pre) + ("\n" if pre else "") + body.rstrip() + "\n" + "\n".join(post) + ("\n" if post else "") + "}\n"
                    if wrap:
                        text = wrap + " {\n" + text + "}\n"
                    exlog["items"].append({"kind": "slice", "file": d["file"], "fn": d["fn"],
                                           "lines": [extract.line_of(src, s), extract.line_of(src, e)],
                                           "bytes": e - s, "sha256": sha256_bytes(src[s:e].encode())[:16]})
                else:
                    s, e, wpre, wsuf = extract.find_item(src, masked, d["path"])
                    body = src[s:e]
                    where = f"{d['file']}:{extract.line_of(src, s)}-{extract.line_of(src, e)} {d['path']}"
                    body = extract.transform(body, exlog["rules_applied"], where, keep_eq=d.get("keep_eq") == "1")
                    body = extract.drop_statements(body, drops, exlog["dropped"], where)
                    if d.get("rename"):
                        a, _, b = d["rename"].partition(":")
                        # renaming the *item name only* (used when one item is instantiated twice)
                        body = re.sub(r"\bfn\s+" + re.escape(a) + r"\b", "fn " + b, body, count=1)
                    if clauses or d.get("ret"):
                        body = extract.splice_contract(body, d.get("ret", ""), "\n".join(clauses))
                    body = annotate_loops(body, loops, exlog)
                    body = annotate_closures(body, closures, exlog)
                    text = extract.transform(wpre, [], "") + body + wsuf
                    exlog["items"].append({"kind": "item", "file": d["file"], "path": d["path"],
                                           "lines": [extract.line_of(src, s), extract.line_of(src, e)],
                                           "bytes": e - s, "sha256": sha256_bytes(src[s:e].encode())[:16]})
                if e - s <= 0:
                    errors.append(f"empty extraction for {d}")
                out.append(text)
            except (extract.ExtractError, FileNotFoundError, KeyError, ValueError) as ex:
                if d.get("optional") == "1":
                    # an optional item (a helper the unit's main slice calls): when it no longer exists the
                    # slice either does not call it any more or the unit fails to compile (undecided)
                    exlog["items"].append({"kind": "optional-item-missing", "file": d.get("file"), "path": d.get("path"), "note": str(ex)})
                else:
                    errors.append(f"anchor lost: {ex}")
            continue
        if st.startswith("//@sites"):
            # R6: every call site `<call>E)` in the file becomes `fn <name>_<k>(<vars of E>: usize, <reader>) -> (cap: usize)
            # <clauses> { let cap: usize = E; cap }` -- the argument expression E is copied verbatim
            d = kv(st)
            clauses = []
            i += 1
            while i < len(lines) and lines[i].strip() != "//@end":
                l = lines[i].strip()
                if l.startswith("//@|"):
                    clauses.append("    " + l[4:].rstrip())
                elif l:
                    errors.append(f"{unit.path}:{i+1}: unexpected line inside //@sites: {l}")
                i += 1
            i += 1
            try:
                src, masked = load(d["file"])
                call = d["call"]
                reader_param = d["reader"]
                reader_name = reader_param.split(":")[0].strip()
                skips = [x for x in d.get("skip", "").split(",") if x]
                pos, k, found = 0, 0, 0
                while True:
                    at = masked.find(call, pos)
                    if at < 0:
                        break
                    pos = at + len(call)
                    open_idx = at + len(call) - 1
                    depth, j = 0, open_idx
                    while j < len(masked):
                        if masked[j] == "(":
                            depth += 1
                        elif masked[j] == ")":
                            depth -= 1
                            if depth == 0:
                                break
                        j += 1
                    expr = src[open_idx + 1:j].strip()
                    if any(sk in expr for sk in skips):
                        exlog["items"].append({"kind": "site-skipped", "file": d["file"], "line": extract.line_of(src, at), "expr": expr})
                        continue
                    found += 1
                    idents = []
                    for m in re.finditer(r"(?<![\w.])([A-Za-z_]\w*)\b(?!\s*(\(|::))", expr):
                        name = m.group(1)
                        if name in ("as", "usize", "u32", "u64", "u16", "u8", "self", reader_name) or name in idents:
                            continue
                        idents.append(name)
                    params = ", ".join([f"{n}: usize" for n in idents] + [reader_param])
                    out.append(f"// site {d['file']}:{extract.line_of(src, at)}\nfn {d['name']}_{k}({params}) -> (cap: usize)\n" + "\n".join(clauses) + "\n{\n    let cap: usize = " + expr + ";\n    cap\n}\n")
                    exlog["items"].append({"kind": "site", "file": d["file"], "line": extract.line_of(src, at), "expr": expr,
                                           "sha256": sha256_bytes(expr.encode())[:16]})
                    k += 1
                if found < int(d.get("min", "1")):
                    errors.append(f"anchor lost: only {found} call sites of {call} in {d['file']} (expected at least {d.get('min', '1')})")
                exlog["rules_applied"].append(f"R6 {d['file']}: {found} call sites of {call} turned into one contract function each (argument expression verbatim)")
            except (FileNotFoundError, KeyError, ValueError) as ex:
                errors.append(f"anchor lost: {ex}")
            continue
        if st.startswith("//@unit"):
            i += 1
            continue
        out.append(line)
        i += 1
    return {"text": "\n".join(out) + "\n", "log": exlog, "errors": errors}


FN_HEAD = re.compile(r"\b(?:(proof|spec|exec|open spec|closed spec)\s+)?fn\s+(\w+)")


def make_canaries(text):
    """Inject `assert(false)` at the start of every function that has a `requires` clause."""
    m = extract.mask(text)
    pieces, last, tags = [], 0, []
    for fm in FN_HEAD.finditer(m):
        if fm.group(1) and "spec" in fm.group(1):
            continue
        # external_body stubs are not verified: a canary in them proves nothing (a contradictory
        # `requires` on a stub makes its callers FAIL, it cannot make anything pass)
        back = text[max(0, fm.start() - 200):fm.start()]
        if re.search(r"#\[verifier::external_body\]\s*(?:pub(?:\([a-z]+\))?\s+)?$", back):
            continue
        # header = from fn to body-open brace at paren depth 0
        try:
            k = m.index("(", fm.end())
        except ValueError:
            continue
        pd, j = 0, k
        while j < len(m):
            ch = m[j]
            if ch in "([":
                pd += 1
            elif ch in ")]":
                pd -= 1
            elif pd == 0 and ch == "{":
                # the body brace is the first non-blank character of its line (contract clauses such as
                # `match x {` or `if c {` keep their brace on the same line); a signature without
                # clauses may also keep the body brace on the signature line
                ls = m.rfind("\n", 0, j) + 1
                header_so_far = m[fm.start():j]
                if m[ls:j].strip() == "" or not re.search(r"\b(requires|ensures|decreases|recommends)\b", header_so_far):
                    break
                j = extract.match_brace(m, j)
            elif pd == 0 and ch == ";":
                j = -1
                break
            j += 1
        if j < 0 or j >= len(m):
            continue
        header = m[fm.start():j]
        if re.search(r"\bfn\b", m[fm.end():j]):
            continue  # ran into the next function: this one has a single-line body (external stub)
        if not re.search(r"\brequires\b", header):
            continue
        tag = fm.group(2)
        n = tags.count(tag)
        tags.append(tag)
        tagn = f"{tag}#{n}" if n else tag
        is_proof = fm.group(1) == "proof"
        inj = f" assert(false); /*canary:{tagn}*/" if is_proof else f" proof {{ assert(false); }} /*canary:{tagn}*/"
        pieces.append(text[last:j + 1])
        pieces.append(inj)
        last = j + 1
    pieces.append(text[last:])
    uniq = []
    seen = {}
    for t in tags:
        c = seen.get(t, 0)
        seen[t] = c + 1
        uniq.append(f"{t}#{c}" if c else t)
    return "".join(pieces), uniq


ERR_RE = re.compile(r"^(error|warning|note)(?:\[[^\]]*\])?: (.*)$")
LOC_RE = re.compile(r"^\s*--> (.+?):(\d+):(\d+)")


def parse_errors(stderr):
    errs = []
    cur = None
    for line in stderr.split("\n"):
        m = ERR_RE.match(line)
        if m:
            cur = {"level": m.group(1), "msg": m.group(2), "line": None}
            if m.group(1) == "error":
                errs.append(cur)
            continue
        m = LOC_RE.match(line)
        if m and cur is not None and cur["line"] is None:
            cur["line"] = int(m.group(2))
    return [e for e in errs if not e["msg"].startswith("aborting due to")]


def enclosing_fn(text, line_no):
    lines = text.split("\n")
    for k in range(min(line_no, len(lines)) - 1, -1, -1):
        m = re.search(r"\bfn\s+(\w+)", lines[k])
        if m and not lines[k].lstrip().startswith("//"):
            return m.group(1)
    return "?"


def verus_run(path, rlimit=None):
    cmd = ["verus", path, "--output-json", "--time", "--num-threads", "8", "--multiple-errors", "5"]
    if rlimit:
        cmd += ["--rlimit", str(rlimit)]
    p_out = path + ".out.json"
    p_err = path + ".err.txt"
    sh = " ".join(shlex.quote(c) for c in cmd) + f" > {shlex.quote(p_out)} 2> {shlex.quote(p_err)}"
    rc, _, wall = run(["bash", "-c", sh], cwd=os.path.dirname(path), timeout=1800)
    try:
        js = json.load(open(p_out))
    except Exception:
        js = {}
    err = open(p_err).read() if os.path.exists(p_err) else ""
    return rc, js, err, wall, " ".join(cmd)


def run_units(units, tier, log=None):
    records = {}
    os.makedirs(OUT_DIR, exist_ok=True)
    for u in units:
        b = build(u)
        rec = {"unit": u.id, "engine": "verus", "kind": "proof", "fns": u.fns, "file": "", "verdict": "undecided",
               "reason": "", "checks": 0, "time_s": 0.0, "failed_checks": [], "raw": "", "extraction": b["log"],
               "canaries": 0, "canaries_rejected": 0, "assumptions": [], "trusted": [], "statement": u.statement,
               "bound": "", "known": u.known}
        records[u.id] = rec
        if b["errors"]:
            rec["reason"] = "; ".join(b["errors"])[:600]
            continue
        main_path = os.path.join(OUT_DIR, u.id.replace(".", "_") + ".rs")
        can_path = os.path.join(OUT_DIR, u.id.replace(".", "_") + "_canary.rs")
        open(main_path, "w").write(b["text"])
        rec["file"] = main_path
        # mechanical scan for assumptions
        t = b["text"]
        mt = extract.mask(t)
        for mm in re.finditer(r"#\[verifier::external_body\]\s*(?:\w+\s+)*?(fn|struct|enum|type)\s+(\w+)", mt):
            rec["trusted"].append(f"verus external_body {mm.group(1)} {mm.group(2)} ({u.id})")
        for mm in re.finditer(r"assume_specification\s*(?:<[^>]*>)?\s*\[([^\]]+)\]", mt):
            rec["trusted"].append(f"verus assume_specification [{' '.join(mm.group(1).split())}] ({u.id})")
        n_assume = len(re.findall(r"\bassume\s*\(", mt)) + len(re.findall(r"\badmit\s*\(", mt))
        if n_assume:
            rec["trusted"].append(f"{n_assume} assume()/admit() statements in {u.id}")
        for d in b["log"]["dropped"]:
            rec["assumptions"].append(f"dropped statement does not write contract state: {d['dropped_statement']} ({d['where']})")
        rc, js, err, wall, cmd = verus_run(main_path)
        if log is not None:
            log.append({"cmd": cmd, "rc": rc, "wall_s": round(wall, 1)})
        vr = js.get("verification-results", {})
        rec["time_s"] = js.get("times-ms", {}).get("total", wall * 1000) / 1000.0
        errs = parse_errors(err)
        if rc == 0 and vr.get("success") and vr.get("errors", 1) == 0:
            n_ok = vr.get("verified", 0)
            if n_ok < 1:
                rec["reason"] = "zero functions verified (vacuous)"
                continue
            # canaries
            ctext, tags = make_canaries(b["text"])
            rec["canaries"] = len(tags)
            if tags:
                open(can_path, "w").write(ctext)
                rc2, js2, err2, wall2, cmd2 = verus_run(can_path)
                if log is not None:
                    log.append({"cmd": cmd2, "rc": rc2, "wall_s": round(wall2, 1)})
                clines = ctext.split("\n")
                rejected = set()
                for e in parse_errors(err2):
                    if e["line"] and "assertion failed" in e["msg"]:
                        cm = re.search(r"/\*canary:([^*]+)\*/", clines[e["line"] - 1])
                        if cm:
                            rejected.add(cm.group(1))
                rec["canaries_rejected"] = len(rejected)
                missing = [t for t in tags if t not in rejected]
                if missing:
                    rec["reason"] = f"vacuity guard: canary not rejected for {missing[:6]} (contradictory precondition or canary run failed)"
                    rec["raw"] = err2[-3000:]
                    continue
            rec["verdict"] = "known-absent" if u.known else "verified"
            if u.known:
                rec["reason"] = "witness obligation verifies (finding no longer present)"
            rec["checks"] = n_ok + rec["canaries_rejected"]
            continue
        # failure: definite verdict or not?
        rec["raw"] = err[-6000:]
        if not errs:
            rec["reason"] = f"verus exited {rc} without a parsable error (tool failure/timeout)"
            continue
        definite = [e for e in errs if any(e["msg"].startswith(d) or d in e["msg"] for d in DEFINITE)]
        other = [e for e in errs if e not in definite]
        if other:
            rec["reason"] = "outside the verifier's subset or resource limit: " + "; ".join(f"{e['msg']} (line {e['line']})" for e in other[:3])
            continue
        rec["verdict"] = "failed"
        for e in definite:
            fn = enclosing_fn(b["text"], e["line"] or 1)
            rec["failed_checks"].append({"description": e["msg"], "location": f"{os.path.basename(main_path)}:{e['line']} in fn {fn}"})
        rec["reason"] = "; ".join(f"{c['description']} [{c['location']}]" for c in rec["failed_checks"][:4])
        if u.known and u.known_at:
            tl = b["text"].split("\n")
            # the recorded obligation: a failed precondition at the recorded call, or a failed postcondition clause
            # (Verus reports the clause's own line) -- identified by the text `known_at` on the reported line
            at_site = [e for e in definite if (e["msg"].startswith("precondition not satisfied") or e["msg"].startswith("postcondition not satisfied"))
                       and e["line"] and u.known_at in tl[e["line"] - 1]]
            if len(at_site) == len(definite) and len(at_site) == 1:
                rec["verdict"] = "known-present"
                rec["checks"] = 1
                rec["reason"] = f"recorded finding {u.known}: the only failing obligation is the one at `{u.known_at}` [{rec['failed_checks'][0]['location']}]"
    return records
