"""Verus engine (filled in below): extraction of real items/slices, contract splicing, canaries."""


def load_units():
    return []


def run_units(units, tier, log=None):
    return {}
