"""Mechanical extraction of real Rust items / statement slices from /repo for Verus.

The only transformations applied to extracted text (DESIGN §2.2, reported in evidence):
  R1  visibility qualifiers (`pub`, `pub(crate)`, `pub(super)`), outer attributes (`#[...]`) and
      doc comments are removed; `#[derive(..)]` is reduced to its `Clone`/`Copy` members (ownership
      semantics are kept, Debug/PartialEq/Ord/Hash impls are not needed by any contract);
  R2  unused closure parameters `|_|` are renamed `|_e|`; a function item passed to `.map_err(f)` is
      eta-expanded to `.map_err(|_e| f(_e))`;
  R3  statements starting with a literal prefix on the unit's drop list are deleted;
  R4  contract clauses are spliced between signature and body and `-> T` becomes `-> (name: T)`.
Nothing else: if the verbatim text does not pass Verus the unit is not rewritten by hand.
"""
import re


class ExtractError(Exception):
    pass


def mask(src):
    """Return src with comments, string and char literals blanked (same length, newlines kept)."""
    out = list(src)
    i, n = 0, len(src)

    def blank(a, b):
        for k in range(a, b):
            if out[k] != "\n":
                out[k] = " "

    while i < n:
        c = src[i]
        if src.startswith("//", i):
            j = src.find("\n", i)
            j = n if j < 0 else j
            blank(i, j)
            i = j
        elif src.startswith("/*", i):
            depth, j = 1, i + 2
            while j < n and depth:
                if src.startswith("/*", j):
                    depth += 1
                    j += 2
                elif src.startswith("*/", j):
                    depth -= 1
                    j += 2
                else:
                    j += 1
            blank(i, j)
            i = j
        elif c == '"' or (c == "b" and src.startswith('b"', i)):
            j = i + (2 if c == "b" else 1)
            while j < n and src[j] != '"':
                j += 2 if src[j] == "\\" else 1
            blank(i + 1, j)
            i = j + 1
        elif c == "r" and re.match(r'r#*"', src[i:i + 12]) and (i == 0 or not (src[i - 1].isalnum() or src[i - 1] == "_")):
            m = re.match(r'r(#*)"', src[i:])
            close = '"' + m.group(1)
            j = src.find(close, i + len(m.group(0)))
            j = n if j < 0 else j + len(close)
            blank(i + 1, j - 1)
            i = j
        elif c == "'":
            # char literal or lifetime
            m = re.match(r"'(\\.[^']*|[^'\\])'", src[i:i + 12])
            if m:
                blank(i + 1, i + len(m.group(0)) - 1)
                i += len(m.group(0))
            else:
                i += 1
        else:
            i += 1
    return "".join(out)


def match_brace(masked, open_idx):
    assert masked[open_idx] == "{"
    depth = 0
    for k in range(open_idx, len(masked)):
        ch = masked[k]
        if ch == "{":
            depth += 1
        elif ch == "}":
            depth -= 1
            if depth == 0:
                return k
    raise ExtractError("unbalanced braces")


def depth_at(masked, idx, base=0):
    return masked.count("{", base, idx) - masked.count("}", base, idx)


def line_of(src, idx):
    return src.count("\n", 0, idx) + 1


def _item_start_backwards(src, masked, idx):
    """Extend an item start backwards over attributes and doc comments directly above it."""
    start = src.rfind("\n", 0, idx) + 1
    while True:
        prev_end = start - 1
        if prev_end <= 0:
            break
        prev_start = src.rfind("\n", 0, prev_end) + 1
        line = src[prev_start:prev_end].strip()
        if line.startswith("#[") or line.startswith("///") or line.startswith("#!["):
            start = prev_start
        else:
            break
    return start


def _find_in_range(src, masked, lo, hi, kind, name, want_depth):
    if kind == "fn":
        pat = re.compile(r"(?m)^[ \t]*(?:pub(?:\([^)]*\))?\s+)?(?:const\s+)?(?:async\s+)?fn\s+" + re.escape(name) + r"\b")
    elif kind in ("struct", "enum", "union", "trait", "type"):
        pat = re.compile(r"(?m)^[ \t]*(?:pub(?:\([^)]*\))?\s+)?" + kind + r"\s+" + re.escape(name) + r"\b")
    elif kind == "const" or kind == "static":
        pat = re.compile(r"(?m)^[ \t]*(?:pub(?:\([^)]*\))?\s+)?" + kind + r"\s+" + re.escape(name) + r"\b")
    elif kind == "macro_rules":
        pat = re.compile(r"(?m)^[ \t]*macro_rules!\s+" + re.escape(name) + r"\b")
    elif kind == "impl":
        pat = re.compile(r"(?m)^[ \t]*impl(?:<[^>{]*>)?\s+(?:[\w:<>, ]+\s+for\s+)?" + re.escape(name) + r"(?:<[^>{]*>)?\s*(?:where[^{]*)?\{")
    else:
        raise ExtractError(f"unknown item kind {kind}")
    hits = []
    for m in pat.finditer(masked, lo, hi):
        if depth_at(masked, m.start(), lo) == want_depth:
            hits.append(m)
    return hits


def find_item(src, masked, path):
    """path: 'fn f' | 'struct S' | 'impl T::fn f' | 'impl T' | 'impl Tr for T' | 'macro_rules m' | 'const C'.
    Returns (start, end, wrapper_prefix, wrapper_suffix)."""
    lo, hi, want_depth = 0, len(src), 0
    pre, suf = "", ""
    parts = path.split("::")
    for pi, part in enumerate(parts):
        part = part.strip()
        kind, _, name = part.partition(" ")
        name = name.strip()
        if kind == "impl" and " for " in name:
            trait, _, ty = name.partition(" for ")
            pat = re.compile(r"(?m)^[ \t]*impl(?:<[^>{]*>)?\s+" + re.escape(trait.strip()) + r"\s+for\s+" + re.escape(ty.strip()) + r"\s*\{")
            hits = [m for m in pat.finditer(masked, lo, hi) if depth_at(masked, m.start(), lo) == want_depth]
        else:
            hits = _find_in_range(src, masked, lo, hi, kind, name, want_depth)
            if kind == "impl":
                # inherent impl only (no `for`) unless asked
                hits = [m for m in hits if " for " not in masked[m.start():m.end()]]
        last = pi == len(parts) - 1
        if kind == "impl" and not last:
            # several inherent impl blocks may exist: pick the one containing the next part
            nk, _, nn = parts[pi + 1].strip().partition(" ")
            chosen = None
            for m in hits:
                ob = masked.index("{", m.start())
                cb = match_brace(masked, ob)
                if _find_in_range(src, masked, ob + 1, cb, nk, nn.strip(), 0):
                    if chosen is not None:
                        raise ExtractError(f"item `{path}`: ambiguous impl block")
                    chosen = (m, ob, cb)
            if chosen is None:
                raise ExtractError(f"item `{path}` not found")
            m, ob, cb = chosen
            pre = src[m.start():ob + 1].strip() + "\n"
            suf = "\n}\n"
            lo, hi, want_depth = ob + 1, cb, 1
            # depth is counted from lo, so members are at depth 0 relative to lo
            want_depth = 0
            continue
        if len(hits) != 1:
            raise ExtractError(f"item `{path}`: expected exactly one match, found {len(hits)}")
        m = hits[0]
        start = _item_start_backwards(src, masked, m.start())
        # end: first of `{`-block or `;` at paren depth 0
        k = m.end() if kind != "impl" else m.end() - 1
        pd = 0
        while k < hi:
            ch = masked[k]
            if ch in "([":
                pd += 1
            elif ch in ")]":
                pd -= 1
            elif ch == "{" and pd == 0 and kind in ("const", "static", "type"):
                k = match_brace(masked, k)
            elif ch == "{" and pd == 0:
                end = match_brace(masked, k) + 1
                break
            elif ch == ";" and pd == 0:
                end = k + 1
                break
            k += 1
        else:
            raise ExtractError(f"item `{path}`: no end found")
        if kind == "macro_rules":
            # macro_rules! name { ... }  (brace form) -- end already at the closing brace
            pass
        return start, end, pre, suf
    raise ExtractError(f"item `{path}`: empty path")


ATTR_LINE = re.compile(r"(?m)^[ \t]*#!?\[[^\n]*\]\s*\n")
DOC_LINE = re.compile(r"(?m)^[ \t]*//[/!][^\n]*\n")
PUB_RE = re.compile(r"\bpub(?:\((?:crate|super|self|in [\w:]+)\))?\s+")


def transform(text, log, where, keep_eq=False):
    """Rules R1, R2 on already-extracted text (comments/strings protected through masking).
    keep_eq: a derived `PartialEq, Eq` is kept as `PartialEq, Eq, Structural` (Verus' form of a derived
    structural equality), so that code comparing values of the type with == / != stays ingestible."""
    # R1 attributes + doc comments (line based, they never sit inside strings in the items we take)
    n_attr = 0

    def attr_sub(mm):
        nonlocal n_attr
        line = mm.group(0)
        dm = re.match(r"([ \t]*)#\[derive\(([^)]*)\)\]", line)
        if dm:
            names = [x.strip() for x in dm.group(2).split(",") if x.strip()]
            keep = [x for x in names if x in ("Clone", "Copy")]
            if keep_eq and "PartialEq" in names and "Eq" in names:
                keep += ["PartialEq", "Eq", "Structural"]
            if keep:
                if len(keep) != len([x for x in dm.group(2).split(",") if x.strip()]):
                    n_attr += 1
                return f"{dm.group(1)}#[derive({', '.join(keep)})]\n"
        n_attr += 1
        return ""
    text2 = ATTR_LINE.sub(attr_sub, text)
    n_doc = len(DOC_LINE.findall(text2))
    text2 = DOC_LINE.sub("", text2)
    m = mask(text2)
    out, last, n_pub = [], 0, 0
    for mm in PUB_RE.finditer(m):
        out.append(text2[last:mm.start()])
        last = mm.end()
        n_pub += 1
    out.append(text2[last:])
    text3 = "".join(out)
    # R2 closures
    m3 = mask(text3)
    n_cl = 0
    res, last = [], 0
    for mm in re.finditer(r"\|_\|", m3):
        res.append(text3[last:mm.start()])
        res.append("|_e|")
        last = mm.end()
        n_cl += 1
    res.append(text3[last:])
    text4 = "".join(res)
    # R2b the elided lifetime of a `const X: &str` item is spelled out (`&'static str`): identical meaning,
    # required by the verus! macro's const handling
    text5, n_st = re.subn(r"(?m)^(\s*const\s+\w+\s*:\s*)&str\b", r"\1&'static str", text4)
    # R2c a function item passed to `.map_err(..)` is eta-expanded (`.map_err(f)` -> `.map_err(|_e| f(_e))`):
    # identical meaning; Verus does not accept a function item where a closure is expected
    text5, n_eta = re.subn(r"\.map_err\(\s*([A-Za-z_][A-Za-z0-9_]*)\s*\)", r".map_err(|_e| \1(_e))", text5)
    if n_eta:
        log.append({"where": where, "map_err_fn_items_eta_expanded": n_eta})
    if n_attr or n_doc or n_pub or n_cl or n_st:
        log.append({"where": where, "attributes_removed": n_attr, "doc_comment_lines_removed": n_doc,
                    "visibility_qualifiers_removed": n_pub, "closure_params_renamed": n_cl,
                    "const_str_static_lifetime_spelled_out": n_st})
    return text5


def drop_statements(text, prefixes, log, where):
    """R3: delete statements that start with one of the literal prefixes (through their `;`).
    A prefix given as `PREFIX => REPLACEMENT` is not deleted but replaced by REPLACEMENT (a call to an
    external_body marker of the unit's prelude that records THAT the statement ran, so its position
    relative to the rest of the body stays under contract)."""
    if not prefixes:
        return text
    for p_full in prefixes:
        p, _, repl = p_full.partition(" => ")
        p = p.strip()
        repl = repl.strip()
        while True:
            m = mask(text)
            idx = -1
            for mm in re.finditer(re.escape(p), m):
                # must be at statement start: only whitespace before it on its line
                ls = text.rfind("\n", 0, mm.start()) + 1
                if text[ls:mm.start()].strip() == "":
                    idx = mm.start()
                    break
            if idx < 0:
                break
            k, pd = idx, 0
            block_stmt = re.match(r"(if|for|while|loop|match)\b", p) is not None
            while k < len(m):
                ch = m[k]
                if ch == "{" and pd == 0 and block_stmt:
                    k = match_brace(m, k)
                    rest = m[k + 1:].lstrip()
                    if rest.startswith("else"):
                        k += 1
                        continue
                    break
                if ch in "([{":
                    pd += 1
                elif ch in ")]}":
                    pd -= 1
                elif ch == ";" and pd == 0:
                    break
                k += 1
            ls = text.rfind("\n", 0, idx) + 1
            le = text.find("\n", k)
            le = len(text) if le < 0 else le + 1
            if repl:
                log.append({"where": where, "dropped_statement": " ".join(text[idx:k + 1].split())[:160], "replaced_by_marker": repl})
                indent = text[ls:idx]
                text = text[:ls] + indent + repl + "\n" + text[le:]
                # a marker replaces ONE occurrence per directive line; move on to the next prefix
                break
            log.append({"where": where, "dropped_statement": " ".join(text[idx:k + 1].split())[:160]})
            text = text[:ls] + text[le:]
    return text


def splice_contract(fn_text, ret_name, clauses):
    """R4: insert contract clauses before the body and name the return value."""
    m = mask(fn_text)
    fm = re.search(r"\bfn\s+\w+", m)
    if not fm:
        raise ExtractError("splice: no fn")
    k = m.index("(", fm.end())
    pd = 0
    while k < len(m):
        if m[k] == "(":
            pd += 1
        elif m[k] == ")":
            pd -= 1
            if pd == 0:
                break
        k += 1
    close_paren = k
    body_open = m.index("{", close_paren)
    sig_tail = fn_text[close_paren + 1:body_open]
    if ret_name:
        rm = re.match(r"(\s*)->\s*(.+?)\s*(where\b.*)?$", sig_tail, re.S)
        if rm:
            sig_tail = f"{rm.group(1)}-> ({ret_name}: {rm.group(2).strip()})" + (" " + rm.group(3) if rm.group(3) else "")
    contract = ("\n" + clauses.rstrip() + "\n") if clauses.strip() else " "
    return fn_text[:close_paren + 1] + sig_tail.rstrip() + contract + fn_text[body_open:]


def inject_canary(fn_text, tag):
    """Copy of a contracted function whose body starts with `assert(false)` (vacuity canary)."""
    m = mask(fn_text)
    fm = re.search(r"\bfn\s+\w+", m)
    k = m.index("(", fm.end())
    pd = 0
    while k < len(m):
        if m[k] == "(":
            pd += 1
        elif m[k] == ")":
            pd -= 1
            if pd == 0:
                break
        k += 1
    # body brace: first `{` after the clauses; clauses may contain braces only inside parens/closures,
    # so search for a `{` that is followed by a newline at paren depth 0
    pd = 0
    j = k + 1
    while j < len(m):
        ch = m[j]
        if ch in "([":
            pd += 1
        elif ch in ")]":
            pd -= 1
        elif ch == "{" and pd == 0:
            break
        j += 1
    is_proof = re.search(r"\bproof\s+fn\b", m[:fm.end()]) is not None
    inj = f" assert(false); /*canary:{tag}*/" if is_proof else f" proof {{ assert(false); }} /*canary:{tag}*/"
    return fn_text[:j + 1] + inj + fn_text[j + 1:]


def extract_slice(src, masked, fn_path, start_anchor, end_anchor, exact=False, end_last=False, stmts=1):
    s, e, _, _ = find_item(src, masked, fn_path)
    body = src[s:e]
    mb = masked[s:e]

    def once(anchor, frm=0):
        pos = [mm.start() for mm in re.finditer(re.escape(anchor), body) if mb[mm.start():mm.start() + 1] != " " or anchor[0] == " "]
        pos = [p for p in pos if p >= frm]
        if len(pos) != 1:
            raise ExtractError(f"slice anchor `{anchor}` in `{fn_path}`: expected exactly one match, found {len(pos)}")
        return pos[0]
    a = once(start_anchor)
    if end_anchor in ("$EOL", "$STMT", "$BLOCK", "$ENDBLOCK"):
        # structural ends: the slice boundary does not depend on the text under contract
        if end_anchor == "$EOL":
            b = body.find("\n", a)
            b = len(body) if b < 0 else b
        elif end_anchor == "$STMT":
            k, pd, left = a, 0, max(1, int(stmts))
            while k < len(mb):
                ch = mb[k]
                if ch in "([{":
                    pd += 1
                elif ch in ")]}":
                    pd -= 1
                elif ch == ";" and pd == 0:
                    left -= 1
                    if left == 0:
                        break
                k += 1
            if k >= len(mb):
                raise ExtractError(f"slice `{start_anchor}` in `{fn_path}`: no statement end found")
            b = k + 1
        elif end_anchor == "$BLOCK":
            # through the brace that closes the last `{` of the start anchor
            # (or, when the anchor has none, the first `{` after it)
            ob = a + start_anchor.rfind("{") if "{" in start_anchor else mb.find("{", a)
            if ob < 0:
                raise ExtractError("$BLOCK: no `{` after the start anchor")
            b = match_brace(mb, ob) + 1
        else:  # $ENDBLOCK: up to (not including) the brace that closes the block containing the start anchor
            k, depth = a, 0
            while k < len(mb):
                ch = mb[k]
                if ch == "{":
                    depth += 1
                elif ch == "}":
                    depth -= 1
                    if depth < 0:
                        break
                k += 1
            if k >= len(mb):
                raise ExtractError(f"slice `{start_anchor}` in `{fn_path}`: enclosing block end not found")
            b = k
        a_line = a if exact else body.rfind("\n", 0, a) + 1
        return s + a_line, s + b
    # the end anchor is its first occurrence at or after the start anchor
    bpos = [mm.start() for mm in re.finditer(re.escape(end_anchor), body) if mm.start() >= a]
    if not bpos:
        raise ExtractError(f"slice end anchor `{end_anchor}` in `{fn_path}` not found after the start anchor")
    b = (bpos[-1] if end_last else bpos[0]) + len(end_anchor)
    a_line = a if exact else body.rfind("\n", 0, a) + 1
    return s + a_line, s + b
