"""Per-property static tables: generators of derived harness tables, not-decided clause lists,
and the mechanical scan for trusted stubs/assumptions in harness sources."""
import os
import re

GENERATORS = []

NOT_DECIDED = {}


def kani_trusted_scan(units):
    """Mechanical scan of the harness files used by this run for stubs and assumptions."""
    out = set()
    seen = set()
    for u in units:
        if u.file in seen:
            continue
        seen.add(u.file)
        src = open(u.file).read()
        for m in re.finditer(r"#\[kani::stub\(([^)]*)\)\]", src):
            out.add(f"kani::stub({m.group(1).strip()}) in {os.path.basename(u.file)}")
        n = len(re.findall(r"kani::assume\(", src))
        if n:
            out.add(f"{n} kani::assume preconditions in {os.path.basename(u.file)} (each followed by cover! vacuity guards)")
    return out
