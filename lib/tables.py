"""Per-property static tables: generators of derived harness tables, not-decided clause lists,
and the mechanical scan for trusted stubs/assumptions in harness sources."""
import os
import re

GENERATORS = []

NOT_DECIDED = {
    "C01": ["termination of a cycle", "checker/interpreter agreement for whole programs (a checker that accepts an ill-typed program is invisible)",
            "exec_stmt/eval_expr over storage beyond the REPEAT/WHILE/FOR/CASE arms and call paths under contract", "integer ** beyond exponent 5 on general bases", "execution budget timeout"],
    "C02": ["short-circuit AND/OR and operator precedence (parser/lowering)", "by-value / by-reference argument binding over storage", "DINT-and-wider DIV/MOD (128-bit divider)",
            "REAL/LREAL arithmetic", "STRING comparison", "arrays and structs"],
    "C03": ["the ordinary assignment path (write_lvalue stores the evaluated value as-is: an INT variable can hold a DInt)", "parameter passing", "debugger writes", "restart", "REAL and STRING/CHAR coercions"],
    "C04": ["value contracts of the exec_ton/tof/tp glue beyond frame + step (their step functions are proved separately)", "PT changing during a trace in the trace lemmas"],
    "C06": ["the loop shell of collect_ready_tasks (look-ups feeding the decision slice)", "std sort_by_key", "background programs (set difference over IndexMap)"],
    "C07": ["binding application over storage (read_inputs body; values written by write_outputs)", "driver loops inside read_cycle_inputs/write_cycle_outputs", "latching as seen by program reads", "images longer than the stated bounds"],
    "C08": ["every place a fault can surface inside tasks", "a safe-state entry the interface refuses stops IoSafeState::apply before the drivers are written (configuration error path)"],
    "C09": ["observational equivalence with a fresh runtime", "instance-id bindings across restart", "program-level retain in retain_snapshot", "the save/load power cycle beyond the scalar codec and save_snapshot"],
    "C10": ["crash atomicity of the file store (not decidable by contracts)", "decode of arbitrary tags, arrays, structs, whole snapshots"],
    "C11": ["module-level encode/decode round trip", "every emitted container validates (encoder)", "apply_bytecode_bytes", "semantic content of the TYPE/REF/POU/RESOURCE section decoders"],
    "C14": ["state/documents.rs (which text the analysis database holds for an open document)", "the position-carrying answers themselves", "symbolic texts longer than 2-3 characters"],
    "C17": ["transparency, one stop per pause, resume liveness and deadlock freedom (Mutex/Condvar interleavings)"],
    "C18": ["handlers' own effects", "transports", "malformed-JSON totality", "config.set with a credential key next to ordinary keys", "that each dispatcher matches the untrimmed request type the role gate saw"],
}


def kani_trusted_scan(units):
    """Mechanical scan of the harness files used by this run for stubs and assumptions."""
    out = set()
    seen = set()
    for u in units:
        if u.file in seen:
            continue
        seen.add(u.file)
        src = open(u.file).read()
        for m in re.finditer(r"#\[kani::stub\(([^)]*)\)\]", src):
            out.add(f"kani::stub({m.group(1).strip()}) in {os.path.basename(u.file)}")
        n = len(re.findall(r"kani::assume\(", src))
        if n:
            out.add(f"{n} kani::assume preconditions in {os.path.basename(u.file)} (each followed by cover! vacuity guards)")
    return out


# ------------------------------------------------------------------------------------------------
# C18: dispatcher arms, extracted from the handler sources on every run
# ------------------------------------------------------------------------------------------------
import json
from common import REPO, VERIF

ARM_RE = re.compile(r'^\s*((?:"[^"]+"\s*\|?\s*)+)=>', re.M)


def control_arms():
    hdir = os.path.join(REPO, "crates/trust-runtime/src/control/handlers")
    mods = re.findall(r"(?m)^\s*mod\s+(\w+)\s*;", open(os.path.join(hdir, "mod.rs")).read())
    arms = []
    for m in mods:
        p = os.path.join(hdir, m + ".rs")
        if not os.path.exists(p):
            continue
        src = open(p).read()
        # match arms may wrap: join lines ending with `|`
        src = re.sub(r"\|\s*\n\s*", "| ", src)
        for mm in ARM_RE.finditer(src):
            for name in re.findall(r'"([^"]+)"', mm.group(1)):
                arms.append((name, m))
    return mods, arms


N_CHUNKS = 8


def gen_control_arms(dst):
    mods, arms = control_arms()
    spec = json.load(open(os.path.join(VERIF, "spec/control_roles.json")))
    ro = set(spec["read_only"])
    dbg = set(spec["debug_class_files"])
    if len(arms) < N_CHUNKS or len(arms) > N_CHUNKS * 12:
        raise SystemExit(f"UNDECIDED reason=dispatcher arm extraction found {len(arms)} arms (expected {N_CHUNKS}..{N_CHUNKS*12}); anchor lost")
    lines = ["// GENERATED on every run by /verif/lib/tables.py from control/handlers/*.rs -- do not edit",
             "// (name, read_only per /verif/spec/control_roles.json, arm lives in a debug-class handler file)"]
    chunks = [arms[k::N_CHUNKS] for k in range(N_CHUNKS)]
    lines.append(f"pub const CHUNKS: [&[(&str, bool, bool)]; {N_CHUNKS}] = [")
    for ch in chunks:
        lines.append("    &[")
        for n, f in ch:
            lines.append(f'        ("{n}", {"true" if n in ro else "false"}, {"true" if f in dbg else "false"}),')
        lines.append("    ],")
    lines.append("];")
    lines.append(f"pub const ARM_COUNT: usize = {len(arms)};")
    lines.append("pub const CREDENTIAL_KEYS: &[&str] = &[" + ", ".join(f'"{k}"' for k in spec["credential_keys"]) + "];")
    out = os.path.join(dst, "trust_runtime", "control_arms.in")
    data = "\n".join(lines) + "\n"
    if not os.path.exists(out) or open(out).read() != data:
        open(out, "w").write(data)


GENERATORS.append(gen_control_arms)
