"""Per-property static tables: generators of derived harness tables, not-decided clause lists,
and the mechanical scan for trusted stubs/assumptions in harness sources."""
import os
import re

GENERATORS = []

NOT_DECIDED = {}


def kani_trusted_scan(units):
    """Mechanical scan of the harness files used by this run for stubs and assumptions."""
    out = set()
    seen = set()
    for u in units:
        if u.file in seen:
            continue
        seen.add(u.file)
        src = open(u.file).read()
        for m in re.finditer(r"#\[kani::stub\(([^)]*)\)\]", src):
            out.add(f"kani::stub({m.group(1).strip()}) in {os.path.basename(u.file)}")
        n = len(re.findall(r"kani::assume\(", src))
        if n:
            out.add(f"{n} kani::assume preconditions in {os.path.basename(u.file)} (each followed by cover! vacuity guards)")
    return out


# ------------------------------------------------------------------------------------------------
# C18: dispatcher arms, extracted from the handler sources on every run
# ------------------------------------------------------------------------------------------------
import json
from common import REPO, VERIF

ARM_RE = re.compile(r'^\s*((?:"[^"]+"\s*\|?\s*)+)=>', re.M)


def control_arms():
    hdir = os.path.join(REPO, "crates/trust-runtime/src/control/handlers")
    mods = re.findall(r"(?m)^\s*mod\s+(\w+)\s*;", open(os.path.join(hdir, "mod.rs")).read())
    arms = []
    for m in mods:
        p = os.path.join(hdir, m + ".rs")
        if not os.path.exists(p):
            continue
        src = open(p).read()
        # match arms may wrap: join lines ending with `|`
        src = re.sub(r"\|\s*\n\s*", "| ", src)
        for mm in ARM_RE.finditer(src):
            for name in re.findall(r'"([^"]+)"', mm.group(1)):
                arms.append((name, m))
    return mods, arms


N_CHUNKS = 8


def gen_control_arms(dst):
    mods, arms = control_arms()
    spec = json.load(open(os.path.join(VERIF, "spec/control_roles.json")))
    ro = set(spec["read_only"])
    dbg = set(spec["debug_class_files"])
    if len(arms) < N_CHUNKS or len(arms) > N_CHUNKS * 12:
        raise SystemExit(f"UNDECIDED reason=dispatcher arm extraction found {len(arms)} arms (expected {N_CHUNKS}..{N_CHUNKS*12}); anchor lost")
    lines = ["// GENERATED on every run by /verif/lib/tables.py from control/handlers/*.rs -- do not edit",
             "// (name, read_only per /verif/spec/control_roles.json, arm lives in a debug-class handler file)"]
    chunks = [arms[k::N_CHUNKS] for k in range(N_CHUNKS)]
    lines.append(f"pub const CHUNKS: [&[(&str, bool, bool)]; {N_CHUNKS}] = [")
    for ch in chunks:
        lines.append("    &[")
        for n, f in ch:
            lines.append(f'        ("{n}", {"true" if n in ro else "false"}, {"true" if f in dbg else "false"}),')
        lines.append("    ],")
    lines.append("];")
    lines.append(f"pub const ARM_COUNT: usize = {len(arms)};")
    lines.append("pub const CREDENTIAL_KEYS: &[&str] = &[" + ", ".join(f'"{k}"' for k in spec["credential_keys"]) + "];")
    out = os.path.join(dst, "trust_runtime", "control_arms.in")
    data = "\n".join(lines) + "\n"
    if not os.path.exists(out) or open(out).read() != data:
        open(out, "w").write(data)


GENERATORS.append(gen_control_arms)
