"""Kani engine: harness registry (`// @unit` lines), generation of /verif/gen/kani, running
`cargo kani` in place on /repo, parsing results, concrete playback on the real code."""
import os
import re
import shlex
import shutil
import time

from common import (CACHE, CRATES, GEN, KANI_SRC, KANI_TARGET, PLAYBACK_TARGET, REPO, RESULTS,
                    VERIF, env_offline, load_json, run, sha256_bytes, sha256_file, tree_hash, write_json)

UNIT_RE = re.compile(r"^\s*//\s*@unit\s+(.*)$")
KV_RE = re.compile(r'(\w+)=("([^"]*)"|\S+)')
FN_RE = re.compile(r"\bfn\s+(\w+)\s*\(")
MACRO_RE = re.compile(r"^\s*\w+!\s*\(\s*(\w+)\s*,")


class Unit:
    def __init__(self, d):
        self.id = d["id"]
        self.props = d["props"].split(",")
        self.tier = d.get("tier", "quick")
        self.kind = d.get("kind", "proof")          # proof | bounded
        self.fns = d.get("fn", "").split(",") if d.get("fn") else []
        self.bound = d.get("bound", "")
        self.timeout = int(d.get("timeout", "300"))
        self.flags = d.get("flags", "")              # "" | "alloc"
        self.known = d.get("known", "")              # known-finding id (witness harness)
        self.unwind_ok = d.get("unwind", "") == "strict"
        self.harness = d["harness"]
        self.crate = d["crate"]                      # trust_runtime | trust_lsp
        self.module = d["module"]                    # e.g. eval::ops::verif_kani
        self.file = d["file"]
        self.line = d["line"]
        self.engine = "kani"

    @property
    def fq(self):
        return f"{self.module}::{self.harness}"


def module_of(crate, fname):
    """kani/<crate>/eval_ops.rs -> eval::ops::verif_kani ; lib.rs -> verif_kani."""
    stem = fname[:-3]
    src_root = os.path.join(REPO, "crates", CRATES[crate], "src")
    if stem == "lib":
        return "verif_kani"
    # resolve the underscore-joined stem against the real source tree (longest directory match)
    parts = stem.split("_")
    path = []
    i = 0
    cur = src_root
    while i < len(parts):
        # try the longest remaining join as a file first, else shortest join as a directory
        found = False
        for j in range(len(parts), i, -1):
            cand = "_".join(parts[i:j])
            if j == len(parts) and os.path.isfile(os.path.join(cur, cand + ".rs")):
                path.append(cand)
                i = j
                found = True
                break
            if j < len(parts) and os.path.isdir(os.path.join(cur, cand)):
                path.append(cand)
                cur = os.path.join(cur, cand)
                i = j
                found = True
                break
        if not found:
            # source file vanished: keep a best-effort module path; the build will say so
            path.append("_".join(parts[i:]))
            break
    return "::".join(path + ["verif_kani"])


def load_units():
    units = []
    for crate in sorted(os.listdir(KANI_SRC)):
        cdir = os.path.join(KANI_SRC, crate)
        if crate not in CRATES or not os.path.isdir(cdir):
            continue
        for fname in sorted(os.listdir(cdir)):
            if not fname.endswith(".rs"):
                continue
            path = os.path.join(cdir, fname)
            lines = open(path).read().split("\n")
            module = None
            for i, line in enumerate(lines):
                m = UNIT_RE.match(line)
                if not m:
                    continue
                d = {k: (q if q is not None and v.startswith('"') else v) for k, v, q in KV_RE.findall(m.group(1))}
                name = None
                for j in range(i + 1, min(i + 12, len(lines))):
                    mm = MACRO_RE.match(lines[j]) or FN_RE.search(lines[j])
                    if mm and not lines[j].lstrip().startswith("//"):
                        name = mm.group(1)
                        break
                if name is None:
                    raise SystemExit(f"registry: no harness after @unit at {path}:{i+1}")
                if module is None:
                    module = module_of(crate, fname)
                d.update(harness=name, crate=crate, module=module, file=path, line=i + 1)
                units.append(Unit(d))
    ids = [u.id for u in units]
    dup = {x for x in ids if ids.count(x) > 1}
    if dup:
        raise SystemExit(f"registry: duplicate unit ids {sorted(dup)}")
    return units


def generate(extra_generators=()):
    """Copy /verif/kani -> /verif/gen/kani (the files the hooks include) and run table generators."""
    dst = os.path.join(GEN, "kani")
    os.makedirs(dst, exist_ok=True)
    for crate in os.listdir(KANI_SRC):
        s = os.path.join(KANI_SRC, crate)
        if not os.path.isdir(s):
            continue
        os.makedirs(os.path.join(dst, crate), exist_ok=True)
        for f in os.listdir(s):
            sp, dp = os.path.join(s, f), os.path.join(dst, crate, f)
            data = open(sp, "rb").read()
            if not os.path.exists(dp) or open(dp, "rb").read() != data:
                with open(dp, "wb") as fh:
                    fh.write(data)
    for g in extra_generators:
        g(dst)


def input_hash():
    """Hash of the repo side of what a Kani verdict depends on (the harness side is harness_hash)."""
    return CACHE_VERSION + tree_hash(
        [os.path.join(REPO, "crates"), os.path.join(REPO, "Cargo.toml"), os.path.join(REPO, "Cargo.lock")],
        (".rs", ".toml", ".lock"))


_HH = {}


def harness_hash(unit):
    """Hash of the harness side: the unit's own harness file (harness modules are private leaf modules that
    do not reference each other) and the generated tables next to it."""
    gen_file = os.path.join(GEN, "kani", unit.crate, os.path.basename(unit.file))
    if gen_file not in _HH:
        d = os.path.dirname(gen_file)
        parts = [sha256_file(gen_file)]
        for f in sorted(os.listdir(d)):
            if f.endswith(".in"):
                parts.append(sha256_file(os.path.join(d, f)))
        _HH[gen_file] = sha256_bytes(":".join(parts).encode())
    return _HH[gen_file]


# bump when the way verdicts are derived from Kani output changes (classify / parse_output / kani_cmd)
CACHE_VERSION = "v4:"


# ------------------------------------------------------------------------------------------------
# running and parsing
# ------------------------------------------------------------------------------------------------

CHECKING_RE = re.compile(r"^(?:Thread (\d+): )?Checking harness (\S+?)\.\.\.")
THREAD_RE = re.compile(r"^Thread (\d+):\s*$")
RESULT_RE = re.compile(r"\*\* (\d+) of (\d+) failed(?: \((.*?)\))?")
COVER_RE = re.compile(r"\*\* (\d+) of (\d+) cover properties satisfied")
TIME_RE = re.compile(r"Verification Time: ([0-9.]+)s")


def parse_output(out):
    """Return {fq_harness: result dict} from terse multi-threaded Kani output."""
    results = {}
    current_by_thread = {}
    cur = None  # harness whose block we are in
    lines = out.split("\n")
    for idx, line in enumerate(lines):
        m = CHECKING_RE.match(line)
        if m:
            th = m.group(1) or "0"
            current_by_thread[th] = m.group(2)
            results.setdefault(m.group(2), {"status": "NO_RESULT", "raw": [], "failed_checks": []})
            cur = m.group(2) if m.group(1) is None else None
            continue
        m = THREAD_RE.match(line)
        if m:
            cur = current_by_thread.get(m.group(1))
            continue
        if cur is None:
            continue
        r = results[cur]
        r["raw"].append(line)
        m = RESULT_RE.search(line)
        if m:
            r["failed"] = int(m.group(1))
            r["checks"] = int(m.group(2))
            extra = m.group(3) or ""
            mu = re.search(r"(\d+) unreachable", extra)
            r["unreachable"] = int(mu.group(1)) if mu else 0
            mu = re.search(r"(\d+) undetermined", extra)
            r["undetermined"] = int(mu.group(1)) if mu else 0
        m = COVER_RE.search(line)
        if m:
            r["covers_sat"] = int(m.group(1))
            r["covers"] = int(m.group(2))
        if line.startswith("Failed Checks:"):
            desc = line[len("Failed Checks:"):].strip()
            loc = lines[idx + 1].strip() if idx + 1 < len(lines) and lines[idx + 1].lstrip().startswith("File:") else ""
            r["failed_checks"].append({"description": desc, "location": loc})
        if "CBMC timed out" in line:
            r["timed_out"] = True
        if "run out of memory" in line:
            r["oom"] = True
        if "CBMC failed" in line or "out of memory" in line.lower():
            r["cbmc_failed"] = True
        m = TIME_RE.search(line)
        if m:
            r["time_s"] = float(m.group(1))
        if line.startswith("VERIFICATION:- "):
            r["status"] = line.split("VERIFICATION:- ")[1].strip().split()[0]
            cur = None if THREAD_RE.match(lines[idx + 1] if idx + 1 < len(lines) else "") else cur
    for r in results.values():
        r["raw"] = "\n".join(r["raw"])[-6000:]
    return results


# address-space cap per solver process of the LSP group (two run at a time)
LSP_MEM_GB = int(os.environ.get("VERIF_LSP_MEM_GB", "24"))


def kani_cmd(crate, harnesses, timeout_s, jobs, flags="", extra=()):
    cmd = ["cargo", "kani", "-p", CRATES[crate], "--features", "verif", "-Z", "stubbing",
           "-Z", "function-contracts", "-Z", "unstable-options",
           "--harness-timeout", f"{timeout_s}s", "--target-dir", KANI_TARGET,
           "--output-format=terse", "-j", str(jobs), "--exact"]
    for h in harnesses:
        cmd += ["--harness", h]
    cmd += list(extra)
    if flags == "alloc":
        cmd += ["--cbmc-args", "--object-bits", "40", "--malloc-fail-assert"]
    return cmd


def classify(unit, r):
    """Map a parsed harness result to (verdict, reason).
    verdict: 'verified' | 'failed' | 'undecided' | 'known-present' | 'known-absent'"""
    if r is None or r.get("status") == "NO_RESULT":
        return "undecided", "no result (harness not built or not run)"
    if r.get("timed_out"):
        return "undecided", "solver timeout"
    if r.get("oom"):
        return "undecided", "solver ran out of memory"
    st = r.get("status")
    if unit.known:
        # witness harness of a recorded finding: its cover says whether the finding is present
        if st == "SUCCESSFUL" or st == "FAILED":
            if r.get("covers", 0) >= 1 and r.get("covers_sat", 0) == r.get("covers", 0) and not r.get("failed_checks"):
                return "known-present", "witness cover satisfied"
            if not r.get("failed_checks") and r.get("covers", 0) >= 1:
                return "known-absent", "witness cover unsatisfiable (finding no longer present)"
        return "undecided", "known-finding witness harness gave no usable verdict"
    if st == "SUCCESSFUL":
        if r.get("checks", 0) < 1:
            return "undecided", "zero checks generated (vacuous)"
        if r.get("covers", 0) != r.get("covers_sat", 0):
            return "undecided", f"vacuity guard: only {r.get('covers_sat')} of {r.get('covers')} covers satisfied"
        if r.get("undetermined", 0):
            return "undecided", "undetermined checks"
        return "verified", ""
    if st == "FAILED":
        fc = r.get("failed_checks", [])
        if not fc:
            return "undecided", "FAILED without a failed check (tool error)" if r.get("cbmc_failed") else "FAILED without a failed check"
        unw = [c for c in fc if "unwinding assertion" in c["description"]]
        real = [c for c in fc if "unwinding assertion" not in c["description"]]
        if unw and not real and not unit.unwind_ok:
            return "undecided", "unwinding bound too small for this code (not part of a stated bound)"
        unsupported = [c for c in real if "not currently supported by Kani" in c["description"] or "unsupported" in c["description"].lower()]
        if unsupported and len(unsupported) == len(real):
            return "undecided", "construct unsupported by the verifier"
        return "failed", "; ".join(f"{c['description']} [{c['location']}]" for c in fc[:4])
    return "undecided", f"status {st}"


def run_units(units, tier, jobs=16, use_cache=True, log=None):
    """Run the given Kani units (grouped by crate and cbmc flag set). Returns {unit.id: record}."""
    if not units:
        return {}
    records = {}
    ih = input_hash()
    todo = []
    os.makedirs(RESULTS, exist_ok=True)
    for u in units:
        cpath = os.path.join(RESULTS, sha256_bytes(f"{ih}:{harness_hash(u)}:{u.id}:{u.fq}:{u.flags}".encode())[:32] + ".json")
        c = load_json(cpath) if use_cache else None
        if c and c.get("verdict") in ("verified", "known-present", "known-absent"):
            c["cached"] = True
            records[u.id] = c
        else:
            todo.append((u, cpath))
    groups = {}
    for u, cpath in todo:
        groups.setdefault((u.crate, u.flags), []).append((u, cpath))
    concurrent = len(groups) > 1 and any(c == "trust_lsp" for c, _ in groups)

    def run_group(crate, flags, items):
            tmo = max(u.timeout for u, _ in items)
            if tier == "thorough":
                tmo = max(tmo, 900)
            if os.environ.get("VERIF_TIMEOUT_CAP"):
                tmo = min(tmo, int(os.environ["VERIF_TIMEOUT_CAP"]))
            # the LSP harnesses build Strings from symbolic chars and need 15-30 GB each: run two at a time
            group_jobs = min(jobs, 2) if crate == "trust_lsp" else (max(2, jobs - 2) if concurrent else jobs)
            cmd = kani_cmd(crate, [u.fq for u, _ in items], tmo, group_jobs, flags)
            # overall guard: every harness could run sequentially in the worst case, cap generously
            overall = 900 + tmo * (1 + len(items) // max(1, group_jobs // 2))
            t0 = time.time()
            tee = os.path.join(CACHE, "logs", f"kani-{crate}-{flags or 'std'}-{int(t0)}.log")
            rc, out, wall = run(cmd, cwd=REPO, timeout=overall, tee=tee, mem_gb=(LSP_MEM_GB if crate == "trust_lsp" else 40))
            if log is not None:
                log.append({"cmd": " ".join(shlex.quote(c) for c in cmd), "rc": rc, "wall_s": round(wall, 1)})
            build_failed = ("error: could not compile" in out) or ("error[E" in out and "Checking harness" not in out)
            parsed = parse_output(out)
            for u, cpath in items:
                r = parsed.get(u.fq)
                if build_failed and r is None:
                    verdict, reason = "undecided", "harness crate did not compile against the current tree (anchor lost or signature changed)"
                    errs = [l for l in out.split("\n") if l.startswith("error")][:5]
                    r = {"status": "BUILD_ERROR", "raw": "\n".join(errs)}
                elif rc == -9 and (r is None or r.get("status") == "NO_RESULT"):
                    verdict, reason = "undecided", "cargo kani invocation exceeded the overall time guard"
                    r = r or {"status": "NO_RESULT", "raw": ""}
                else:
                    verdict, reason = classify(u, r)
                    r = r or {"status": "NO_RESULT", "raw": out[-3000:]}
                rec = {
                    "unit": u.id, "harness": u.fq, "crate": CRATES[u.crate], "engine": "kani", "kind": u.kind,
                    "bound": u.bound, "fns": u.fns, "verdict": verdict, "reason": reason,
                    "checks": r.get("checks", 0), "failed": r.get("failed", 0),
                    "unreachable": r.get("unreachable", 0),
                    "covers": r.get("covers", 0), "covers_sat": r.get("covers_sat", 0),
                    "time_s": r.get("time_s", 0.0), "failed_checks": r.get("failed_checks", []),
                    "raw": r.get("raw", "") if verdict not in ("verified",) else "",
                    "cached": False, "known": u.known,
                }
                records[u.id] = rec
                if verdict in ("verified", "known-present", "known-absent"):
                    write_json(cpath, rec)

    # the LSP group (two memory-heavy solver processes) runs alongside the runtime groups; the runtime
    # groups run one after the other
    import threading
    lsp = [(k, v) for k, v in sorted(groups.items()) if k[0] == "trust_lsp"]
    rest = [(k, v) for k, v in sorted(groups.items()) if k[0] != "trust_lsp"]
    def seq(gs):
        for (crate, flags), items in gs:
            run_group(crate, flags, items)
    th = threading.Thread(target=seq, args=(lsp,))
    th.start()
    seq(rest)
    th.join()
    return records


# ------------------------------------------------------------------------------------------------
# concrete playback on the real code
# ------------------------------------------------------------------------------------------------

PLAYBACK_FN_RE = re.compile(r"(#\[test\]\s*fn (kani_concrete_playback_\w+)\(\) \{.*?\n\})", re.S)


def concrete_playback(unit, log=None):
    """Re-run a failing harness with concrete playback, compile the generated test natively against
    the real crate and run it. Returns dict(reproduced: bool|None, values, test, output)."""
    res = {"reproduced": None, "values": [], "test": "", "output": ""}
    gen_file = os.path.join(GEN, "kani", unit.crate, os.path.basename(unit.file))
    cmd = kani_cmd(unit.crate, [unit.fq], max(unit.timeout, 600), 1, unit.flags,
                   extra=["-Z", "concrete-playback", "--concrete-playback=print"])
    rc, out, wall = run(cmd, cwd=REPO, timeout=max(unit.timeout, 600) + 900)
    if log is not None:
        log.append({"cmd": " ".join(cmd), "rc": rc, "wall_s": round(wall, 1)})
    tests = PLAYBACK_FN_RE.findall(out)
    if not tests:
        res["output"] = out[-4000:]
        return res
    # Kani prints one test per failed check AND per satisfied cover; only some of them carry the failing
    # input. Run them all natively and keep the one(s) that fail on the real code.
    seen, uniq = set(), []
    for src, name in tests:
        if name not in seen:
            seen.add(name)
            uniq.append((src, name))

    def values_of(src):
        vs = re.findall(r"//\s*(.+)\n\s*vec!\[([^\]]*)\]", src)
        return [{"value": v.strip(), "bytes": b.strip()} for v, b in vs]

    res["test"] = uniq[0][0]
    res["values"] = values_of(uniq[0][0])
    original = open(gen_file).read()
    try:
        with open(gen_file, "w") as f:
            f.write(original + "\n" + "\n".join(src for src, _ in uniq) + "\n")
        env = env_offline()
        env["CARGO_TARGET_DIR"] = PLAYBACK_TARGET
        target = ["--lib"] if unit.crate == "trust_runtime" else ["--bin", CRATES[unit.crate]]
        cmd2 = ["cargo", "kani", "playback", "-p", CRATES[unit.crate], "--features", "verif"] + target + [
                "-Z", "concrete-playback", "--", "kani_concrete_playback_" + unit.fq.split("::")[-1]]
        rc2, out2, wall2 = run(cmd2, cwd=REPO, timeout=3600, env=env)
        if log is not None:
            log.append({"cmd": " ".join(cmd2), "rc": rc2, "wall_s": round(wall2, 1)})
        keep = [l for l in out2.split("\n") if not l.startswith("warning") and re.search(
            r"panicked|test result|FAILED|running \d+ test|^test |assertion|overflow|error", l)]
        res["output"] = "\n".join(keep)[-6000:]
        failing = [(src, name) for src, name in uniq if re.search(re.escape(name) + r" \.\.\. FAILED", out2)]
        res["tests_run"] = len(uniq)
        if failing:
            res["reproduced"] = True
            res["test"] = failing[0][0]
            res["values"] = values_of(failing[0][0])
        elif re.search(r"test result: ok\. \d+ passed", out2) and not re.search(r"test result: FAILED|panicked at", out2):
            res["reproduced"] = False
        else:
            res["reproduced"] = None
    finally:
        with open(gen_file, "w") as f:
            f.write(original)
        if not os.environ.get("VERIF_KEEP_PLAYBACK"):
            shutil.rmtree(PLAYBACK_TARGET, ignore_errors=True)
    return res
