"""Source of truth for MANIFEST.json (run lib/mkmanifest.py after editing)."""

HOOKS = {
    "guard": "cfg(all(kani, feature = \"verif\"))  -- cargo feature `verif` on trust-runtime / trust-lsp, effective only under the Kani compiler",
    "enable": "cargo kani -p <crate> --features verif (run in /repo by /verif/bin/check); the hooks #[path]-include /verif/gen/kani/<crate>/<module>.rs",
    "baseline_off_cmd": "cd /repo && cargo nextest run --workspace --no-fail-fast --tool-config-file pb:/w/lib/nextest.toml --profile pb --test-threads 8 --offline || cargo test --workspace --no-fail-fast --offline",
    "source_commits": ["8274d3b", "050e36f"],
    "add_only": True,
}

TECH_VERUS = "contract-based deductive verification: Verus requires/ensures on functions extracted verbatim from /repo on every run, IEC spec functions, inductive trace lemmas, canary vacuity guards"

ENGINES = [
    {"name": "verus-extracted", "path": "/verif/lib/verus_engine.py", "serves_properties": ["C04"],
     "kind_free_text": "Verus 0.2026.09.13 on single files assembled on every run from items/slices copied verbatim out of /repo (lib/extract.py) plus hand-written spec functions, contracts and lemmas (verus/*.rs.tmpl)"},
    {"name": "kani-in-place", "path": "/verif/lib/kani_engine.py", "serves_properties": ["C01", "C02", "C03"],
     "kind_free_text": "Kani 0.68 / CBMC 6.11 contract harnesses #[path]-included into the real crates; full-domain symbolic inputs; concrete playback of counterexamples on the real code"},
]

TECH_KANI = "contract-based deductive verification: Kani/CBMC contract harnesses on the real functions in place (full operand domain), counterexample replayed natively"

CLAIMS = {
    "C02": {
        "engine": "kani-in-place",
        "text": "For every operator/operand-type pair under contract, the real apply_unary/apply_binary equal an independent IEC reference written in the contract for every operand value (loop-free harness over the full machine domain = proof for that function). The statement interpreter over storage is not decided.",
        "design_ref": "DESIGN.md §3 C02",
        "note": "Trusted: Kani/CBMC/rustc; partial correctness; only the operator core is under contract, eval_expr/exec_stmt/prepare_bindings are not decided.",
        "technique": TECH_KANI,
    },
}

CLAIMS["C04"] = {
    "engine": "verus-extracted",
    "text": "The real Ton/Tof/Tp/Ctu/Ctd/Ctud/RTrig/FTrig/Sr/Rs::step bodies (extracted verbatim each run) satisfy one-step contracts equal to the IEC 61131-3 FB bodies, for all inputs; trace lemmas by induction over unbounded call sequences derive the property's trace-level clauses (TON.Q iff consecutive on-time reaches PT, TOF hold-off, TP one non-retriggerable pulse, ET within [0,PT] and monotone, counters saturate = min(edge count, max), edge detectors fire exactly one call per edge) from those step functions.",
    "design_ref": "DESIGN.md §3 C04",
    "note": "Trusted: Verus/Z3; machine-integer precondition et+delta <= i64::MAX (clock < 2^62 ns); PT constant per trace in the trace lemmas; exec_* storage glue and instance independence are not yet under contract (listed as not decided in evidence).",
    "technique": TECH_VERUS,
}

NOTES = "Contract-based deductive verification only. See DESIGN.md. Exit codes of bin/check: 0 all baseline obligations discharged; 1 VIOLATION; 2 undecided (never an alarm)."

NOT_APPLICABLE = {
    "C05": "determinism across processes/hash seeds is not a per-call contract; the only nondeterminism source (RandomState iteration inside the 2 500-line encoder) is outside what Kani can execute or Verus can ingest (DESIGN §4)",
    "C12": "lexer is a logos-generated automaton and the tree is rowan (macro/unsafe code); losslessness is a whole-parser invariant no per-function contract in reach implies (DESIGN §4)",
    "C13": "property of edit histories against salsa's macro-generated memoisation; no function whose postcondition can state 'equal to a fresh database' (DESIGN §4)",
    "C15": "tokens(format(s)) == tokens(s) quantifies over the logos lexer on concatenated token texts, which neither verifier can ingest (DESIGN §4)",
    "C16": "needs name resolution over the salsa HIR plus re-analysis and execution of two projects; nothing per-function (DESIGN §4)",
    "C19": "path confinement under symlinks is file-system state and lost-update freedom is thread interleavings; the one per-function kernel (normalize_workspace_path over std::path) did not fit Kani (4 symbolic bytes > 5 min) and Verus has no Path/str reasoning (DESIGN §4)",
    "C20": "interleavings of OS threads over Mutex/Condvar/mpsc; Kani has no threads and Verus would need the runner rewritten on its permission types, i.e. a model (DESIGN §4)",
}

# Properties whose units are designed (DESIGN §3) but not yet frozen into the baseline: not claimed until then.
PENDING = ["C01", "C03", "C06", "C07", "C08", "C09", "C10", "C11", "C14", "C17", "C18"]
for _p in PENDING:
    if _p not in CLAIMS:
        NOT_APPLICABLE[_p] = "not claimed yet: contract units designed in DESIGN.md §3 are still being built; listed here until the unit verifies on the unchanged tree and is frozen into the baseline"
