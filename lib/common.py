"""Shared paths, hashing and small helpers for the /verif driver."""
import hashlib
import json
import os
import subprocess
import time

VERIF = "/verif"
REPO = os.environ.get("VERIF_REPO", "/repo")
CACHE = os.path.join(VERIF, ".cache")
GEN = os.path.join(VERIF, "gen")
KANI_SRC = os.path.join(VERIF, "kani")
KANI_TARGET = os.path.join(CACHE, "kani-target")
PLAYBACK_TARGET = os.path.join(CACHE, "playback-target")
RESULTS = os.path.join(CACHE, "results")
EVIDENCE = os.path.join(VERIF, "evidence")
REPLAYS = os.path.join(VERIF, "replays")
BASELINE = os.path.join(VERIF, "baseline", "obligations.json")
KNOWN = os.path.join(VERIF, "known_findings.json")

CRATES = {"trust_runtime": "trust-runtime", "trust_lsp": "trust-lsp"}

OFFLINE_ENV = {
    "CARGO_NET_OFFLINE": "true",
}


def env_offline():
    e = dict(os.environ)
    e.update(OFFLINE_ENV)
    return e


def sha256_bytes(b):
    return hashlib.sha256(b).hexdigest()


def sha256_file(p):
    with open(p, "rb") as f:
        return sha256_bytes(f.read())


def tree_hash(roots, suffixes):
    """Content hash of every file under the given roots with one of the suffixes."""
    h = hashlib.sha256()
    for root in roots:
        if os.path.isfile(root):
            h.update(root.encode())
            h.update(sha256_file(root).encode())
            continue
        for d, dirs, files in os.walk(root):
            dirs[:] = sorted(x for x in dirs if x not in ("target", ".git", "__pycache__", "node_modules"))
            for f in sorted(files):
                if f.endswith(suffixes):
                    p = os.path.join(d, f)
                    h.update(p.encode())
                    h.update(sha256_file(p).encode())
    return h.hexdigest()


def load_json(path, default=None):
    try:
        with open(path) as f:
            return json.load(f)
    except FileNotFoundError:
        return default


def write_json(path, obj):
    os.makedirs(os.path.dirname(path), exist_ok=True)
    tmp = path + ".tmp"
    with open(tmp, "w") as f:
        json.dump(obj, f, indent=1, sort_keys=False)
        f.write("\n")
    os.replace(tmp, path)


def _mem_cap(gb):
    """preexec hook: cap the address space of the command and its children (a solver that hits the cap
    reports out-of-memory, which the engines classify as undecided, instead of the kernel killing
    unrelated processes)."""
    if not gb:
        return None
    def _set():
        import resource
        lim = int(gb * (1 << 30))
        resource.setrlimit(resource.RLIMIT_AS, (lim, lim))
    return _set


def run(cmd, cwd=None, timeout=None, env=None, tee=None, mem_gb=None):
    """Run a command, return (rc, combined output, wall seconds). rc = -9 on timeout.
    With `tee`, the combined output is also streamed to that file while the command runs."""
    t0 = time.time()
    if tee is None:
        try:
            p = subprocess.run(cmd, cwd=cwd, env=env or env_offline(), stdout=subprocess.PIPE,
                               stderr=subprocess.STDOUT, timeout=timeout)
            return p.returncode, p.stdout.decode("utf-8", "replace"), time.time() - t0
        except subprocess.TimeoutExpired as e:
            out = e.stdout.decode("utf-8", "replace") if e.stdout else ""
            return -9, out, time.time() - t0
    os.makedirs(os.path.dirname(tee), exist_ok=True)
    with open(tee, "wb") as f:
        p = subprocess.Popen(cmd, cwd=cwd, env=env or env_offline(), stdout=f, stderr=subprocess.STDOUT,
                             start_new_session=True, preexec_fn=_mem_cap(mem_gb))
        try:
            rc = p.wait(timeout=timeout)
        except subprocess.TimeoutExpired:
            import signal
            try:
                os.killpg(p.pid, signal.SIGKILL)
            except ProcessLookupError:
                pass
            p.wait()
            rc = -9
    with open(tee, "rb") as f:
        out = f.read().decode("utf-8", "replace")
    return rc, out, time.time() - t0
