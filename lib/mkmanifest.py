#!/usr/bin/env python3
"""Regenerates /verif/MANIFEST.json from lib/manifest_data.py (claims, notes, not-applicable)."""
import json
import os
import sys

sys.path.insert(0, os.path.dirname(os.path.abspath(__file__)))
import manifest_data as md  # noqa: E402

checks = []
for pid, c in md.CLAIMS.items():
    checks.append({
        "property_id": pid,
        "quick_cmd": f"bin/check {pid} --tier quick",
        "thorough_cmd": f"bin/check {pid} --tier thorough",
        "evidence_file": f"/verif/evidence/{pid}.json",
        "replay_cmd_template": f"bin/check {pid} --replay {{path}}",
        "engine": c["engine"],
        "level_claimed": {"category": "proof", "text": c["text"], "design_ref": c["design_ref"]},
        "level_note": c["note"],
        "technique": c["technique"],
    })
m = {
    "version": 1,
    "setup_cmd": "bin/setup",
    "hooks": md.HOOKS,
    "engines": md.ENGINES,
    "checks": checks,
    "notes": md.NOTES,
    "not_applicable": [{"property_id": k, "reason": v} for k, v in md.NOT_APPLICABLE.items()],
}
with open("/verif/MANIFEST.json", "w") as f:
    json.dump(m, f, indent=1)
    f.write("\n")
print("MANIFEST.json written:", len(checks), "checks,", len(m["not_applicable"]), "not applicable")
